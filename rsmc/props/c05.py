"""C05 - array algebra on variables is NumPy's.

State space: expression trees  op_d(...op_1(leaf)...)  over leaf classes x shapes x operators x
operand shapes / index expressions (product bound, exhaustive).  Oracle: the tree is evaluated by
NumPy on *basis assignments* of the variables (all zero; one entry one; for bi-affine results the
product of decision and random basis vectors) and compared with the value of the RSOME result
computed from its observable fields (linear@v+const; raffine/affine).  Both sides are affine
(bi-affine) in the variables, so agreement on the basis points decides the function for all values.

Sparse-constant family: a constant operand may come as a scipy.sparse container (csr_matrix, csc_matrix,
coo_matrix, csr_array) on EITHER side of `+ - * @` (the reflected operators __radd__/__rsub__/__rmul__/
__rmatmul__ of every expression class as well as the direct ones), for square and non-square shapes,
against (a) every leaf class x shape, (b) every intermediate result of a first operator (NumPy-feasible
chains), (c) the bi-affine product (`*` / `@`, either order) of a decision expression with a random one.
RSOME reads a sparse constant as its dense array (so `S * e` is element-wise although scipy's own `*` of a
*_matrix is the matrix product); the reference therefore is NumPy applied to S.toarray().  The constants
have a zero entry and are constant along no row and no column, so "row sum instead of entry", "matrix
product instead of element-wise" and "stored pattern instead of array" all change a basis value.  Where RSOME raises on the sparse container
the chain is re-run with the dense array: dense accepted + sparse failing with anything but TypeError (RSOME's
own refusal of an operand type) is a violation (the container, not the operation, broke it).
"""
import itertools
import numpy as np

PROPERTY = 'C05'
TIMEOUT = 60.0
CHUNK = 64
FLOOR = 0.3
RULE = ('every expression tree of depth<=d over {leaf class} x {shape} x {operator with all operand '
        'shapes / index expressions / axes}; a case is non-trivial when NumPy and RSOME both return a '
        'value and the value depends on at least one variable (compared on all basis assignments); '
        'distinct = distinct canonical tree; constants are float / int / unsigned / Python scalars and '
        'scipy.sparse containers (csr_matrix, csc_matrix, coo_matrix, csr_array) as the left and as the right '
        'operand of + - * @, judged by NumPy on the dense array')
ASSUMPTIONS = [
    'affine / bi-affine functions are decided by their values on the basis assignments (linear algebra)',
    'leaf value is defined by the leaf object\'s own to_affine() fields (checked to be the identity slice for plain variables)',
    'where NumPy raises and RSOME returns a value the property is silent: counted as extension, not alarmed',
    'an expression object used as an operand must keep its coefficients (compared densely, zero-column padding allowed)',
    'RSOME raising where NumPy succeeds is "unsupported" (allowed by the property), except: a chain that RSOME '
    'accepts with the dense array of a sparse constant must not fail with an internal error (anything but '
    'TypeError, RSOME\'s refusal of an operand type) when given the sparse container - differential, two RSOME runs',
    'a scipy.sparse constant denotes its dense array S.toarray() for every operator (RSOME densifies sparse '
    'operands; `*` is element-wise for *_matrix containers too)',
]
TRUSTED = ['CPython', 'NumPy operators as reference', 'scipy.sparse arithmetic used to read Affine.linear']

SHAPES = [(), (1,), (2,), (3,), (1, 2), (2, 1), (2, 2), (2, 3), (3, 2), (2, 1, 3), (2, 3, 2), (1, 2, 2)]
SHAPES_T = SHAPES + [(2, 2, 3, 2), (3, 3), (3, 1)]
PAIR_SHAPES = [(), (2,), (3,), (1, 2), (2, 2), (2, 3), (3, 2), (2, 3, 2)]
RO_KINDS = ['x', 'xs', 'xa', 'z', 'zs', 'za', 'y', 'ys', 'xz']
DRO_KINDS = ['x', 'xs', 'xa', 'z', 'zs', 'za', 'ya', 'xz']
RAND_KINDS = ('z', 'zs', 'za')
# scipy.sparse containers a constant operand may come in ('sp' is the historical name of csr_matrix)
SPARSE_DT = {'sp': 'csr_matrix', 'spc': 'csc_matrix', 'spo': 'coo_matrix', 'spa': 'csr_array'}

INDEXES = ['0', '-1', '1', '2', '-3', '...', ':', '::-1', '1:', ':-1', '::2', '1::2', '0:0', 'None',
           '[0]', '[1,0]', '[0,0,1]', '[-1]', 'np.array([0,1])', 'np.array([[0,1],[1,0]])',
           '[True,False]', '[True,False,True]', 'np.array([True,True])',
           '(0,0)', '(1,-1)', '(slice(None),0)', '(0,slice(None))', '(slice(None),slice(None,None,-1))',
           '(Ellipsis,0)', '(0,Ellipsis)', '(None,slice(None))', '(slice(None),None)',
           '([0,1],[1,0])', '([0],slice(None))', '(slice(None),[1,0])', '(slice(1,None),slice(None,1))',
           '(0,0,0)', '(slice(None),slice(None),1)', '(Ellipsis,-1)', '(1,Ellipsis,None)',
           '(np.array([0,1]),0)', 'np.array([[True,False],[False,True]])', '(slice(None,None,2),Ellipsis)',
           '5', '(0,5)']
RESHAPES = [(-1,), (1, -1), (-1, 1), (2, -1), (-1, 2), (3, -1), (6,), (2, 3), (3, 2), (2, 2), (1, 2, -1),
            (4,), (12,), (2, 6), (1,), ()]
AXES = [None, 0, 1, -1, 2, (0, 1), -2]
KS = [-2, -1, 0, 1, 2, 3]


def _unary_ops(thorough):
    ops = [['neg'], ['T'], ['flatten'], ['trace']]
    ops += [['reshape', list(s)] for s in RESHAPES]
    ops += [['sum', a if not isinstance(a, tuple) else list(a)] for a in AXES]
    ops += [['diag', k, f] for k in KS for f in (False, True)]
    ops += [['tril', k] for k in KS] + [['triu', k] for k in KS]
    ops += [['idx', s] for s in INDEXES]
    return ops


SECOND_Q = [['neg'], ['T'], ['flatten'], ['sum', None], ['sum', 0], ['sum', -1], ['reshape', [-1]],
            ['reshape', [2, -1]], ['idx', '0'], ['idx', '::-1'], ['idx', '(Ellipsis,0)'], ['idx', '[1,0]'],
            ['idx', '(slice(None),None)'], ['diag', 0, False], ['diag', 1, True], ['tril', 0], ['triu', 1],
            ['trace'], ['bin', 'add', 'l', {'c': [2]}], ['bin', 'mul', 'r', {'c': [2, 1]}],
            ['bin', 'matmul', 'l', {'c': [2, 2]}], ['bin', 'matmul', 'r', {'c': [2, 2]}],
            ['bin', 'sub', 'r', {'c': []}], ['bin', 'mul', 'l', {'c': [], 'dt': 'py'}]]


def _const_ops(shapes):
    out = []
    for name in ('add', 'sub', 'mul', 'matmul'):
        for side in ('l', 'r'):
            for s in shapes:
                out.append(['bin', name, side, {'c': list(s)}])
            out.append(['bin', name, side, {'c': [], 'dt': 'py'}])
            out.append(['bin', name, side, {'c': [2, 2], 'dt': 'i'}])
            out.append(['bin', name, side, {'c': [3], 'dt': 'i'}])
            # constants of an unsigned integer dtype (their negation wraps around in NumPy's own dtype)
            out.append(['bin', name, side, {'c': [2, 2], 'dt': 'u8'}])
            out.append(['bin', name, side, {'c': [3], 'dt': 'u8'}])
            out.append(['bin', name, side, {'c': [2], 'dt': 'u16'}])
            out.append(['bin', name, side, {'c': [], 'dt': 'u8'}])
    # batch matrix products where a size-1 batch axis of the constant sits between other batch axes
    for s4 in ([2, 1, 2, 3], [2, 1, 2, 2], [1, 2, 2, 3], [2, 1, 3, 2], [2, 1, 1, 2]):
        out.append(['bin', 'matmul', 'l', {'c': s4}])
        out.append(['bin', 'matmul', 'r', {'c': s4}])
        out.append(['bin', 'mul', 'l', {'c': s4}])
        out.append(['bin', 'add', 'r', {'c': s4}])
    # sparse constants: matrix product on both sides, addition, element-wise with the expression first
    for s in ([2, 2], [2, 3], [3, 2], [1, 2]):
        out.append(['bin', 'matmul', 'l', {'c': s, 'dt': 'sp'}])
        out.append(['bin', 'matmul', 'r', {'c': s, 'dt': 'sp'}])
        out.append(['bin', 'add', 'l', {'c': s, 'dt': 'sp'}])
        out.append(['bin', 'sub', 'r', {'c': s, 'dt': 'sp'}])
        out.append(['bin', 'mul', 'l', {'c': s, 'dt': 'sp'}])
    return out


SPARSE_SHAPES = [[2, 2], [2, 3], [3, 2], [1, 2], [3, 3]]
SPARSE_SHAPES_T = SPARSE_SHAPES + [[2, 1], [1, 1], [1, 3]]


def _sparse_ops(thorough):
    """Constants given as scipy.sparse containers: every container x operator x operand order x shape.

    side 'l': expression (op) S;  side 'r': S (op) expression - the reflected operators (__radd__, __rsub__,
    __rmul__, __rmatmul__) of every expression class.  For the *_matrix containers scipy itself reads `*` as
    the matrix product, RSOME reads a sparse constant as its dense array (element-wise `*`, like NumPy on
    S.toarray()); the reference is NumPy on the dense array in every case.
    """
    have = set(map(repr, _const_ops([])))
    out = []
    for s in (SPARSE_SHAPES_T if thorough else SPARSE_SHAPES):
        for name in ('mul', 'add', 'sub', 'matmul'):
            for side in ('r', 'l'):
                for dt in SPARSE_DT:
                    op = ['bin', name, side, {'c': s, 'dt': dt}]
                    if repr(op) not in have:
                        out.append(op)
    return out


def _sparse_second_q():
    """Reduced sparse alphabet applied to intermediate results and to products of two expressions (quick)."""
    out = []
    for dt in ('sp', 'spa'):
        for name in ('mul', 'add', 'sub', 'matmul'):
            for side in ('r', 'l'):
                out.append(['bin', name, side, {'c': [2, 2], 'dt': dt}])
        for side in ('r', 'l'):
            out.append(['bin', 'mul', side, {'c': [2, 3], 'dt': dt}])
            out.append(['bin', 'mul', side, {'c': [3, 3], 'dt': dt}])
    for dt in ('spc', 'spo'):
        for side in ('r', 'l'):
            out.append(['bin', 'mul', side, {'c': [2, 2], 'dt': dt}])
    return out


# products of two expressions that are then combined with a sparse constant: (kinds, shapes, operator)
PROD_SHAPES = [((2, 2), (2, 2)), ((2, 3), (2, 3)), ((3,), (2, 3)), ((2, 2), (2, 3)), ((2, 3), (3, 2)), ((2,), (2, 2)),
               ((), (2, 2)), ((2, 2), ())]
DEC_KINDS = ('x', 'xs', 'xa')


def _nary_ops():
    out = []
    for ax in (0, 1, -1, 2):
        out.append(['concat', ax, ['e', 'e']])
        out.append(['concat', ax, ['e', {'leaf': 1}]])
        out.append(['concat', ax, [{'leaf': 1}, 'e', 'e']])
        out.append(['concat', ax, ['e', {'c': 'same'}]])
        out.append(['concat', ax, [{'c': 'same'}, 'e']])
    out.append(['rstack', ['e', 'e']])
    out.append(['rstack', ['e', {'leaf': 1}]])
    out.append(['rstack', [['e', 'e'], ['e', 'e']]])
    out.append(['rstack', [['e', {'leaf': 1}], [{'leaf': 1}, 'e']]])
    out.append(['rstack', [['e', {'c': 'same'}]]])
    out.append(['cstack', ['e', 'e']])
    out.append(['cstack', ['e', {'leaf': 1}]])
    out.append(['cstack', [['e', 'e'], ['e', 'e']]])
    out.append(['cstack', [['e', {'leaf': 1}], [{'leaf': 1}, 'e']]])
    out.append(['vec', ['e', 'e']])
    out.append(['vec', ['e', {'c': []}, 'e']])
    out.append(['vec', ['e', {'leaf': 1}]])
    return out


def gen_cases(tier, seed):
    thorough = tier == 'thorough'
    shapes = SHAPES_T if thorough else SHAPES
    unary = _unary_ops(thorough)
    consts = _const_ops(shapes)
    sparse = _sparse_ops(thorough)
    nary = _nary_ops()
    fes = [('ro', RO_KINDS), ('dro', DRO_KINDS)]
    # depth 1: every leaf x every op
    for fe, kinds in fes:
        for k in kinds:
            for s in shapes:
                leaf = {'k': k, 's': list(s)}
                yield {'fe': fe, 'L': [leaf], 'ops': []}
                for op in unary + consts + sparse:
                    yield {'fe': fe, 'L': [leaf], 'ops': [op]}
                for op in nary:
                    l1s = [list(s)] if op[0] != 'vec' else [[]]
                    for s1 in l1s:
                        for k1 in (kinds if thorough else kinds[:1] + [k]):
                            yield {'fe': fe, 'L': [leaf, {'k': k1, 's': s1}], 'ops': [op]}
    # expression (op) expression
    for fe, kinds in fes:
        for k0, k1 in itertools.product(kinds, kinds):
            for s0, s1 in itertools.product(PAIR_SHAPES, PAIR_SHAPES):
                for name in ('add', 'sub', 'mul', 'matmul'):
                    yield {'fe': fe, 'L': [{'k': k0, 's': list(s0)}, {'k': k1, 's': list(s1)}],
                           'ops': [['bin', name, 'l', {'leaf': 1}]]}
    # depth 2 (only chains NumPy accepts up to the last operator: an earlier failure is the depth-1 case)
    second = (unary + consts) if thorough else SECOND_Q
    first = unary + consts
    feas = {}
    for s in shapes:
        for i1, op1 in enumerate(first):
            sh = _np_shape(s, [op1])
            if sh is not None:
                feas[(s, i1)] = sh
    shapes2 = shapes if thorough else PAIR_SHAPES + [(2, 1)]
    for fe, kinds in fes:
        for k in kinds:
            for s in shapes2:
                leaf = {'k': k, 's': list(s)}
                for i1, op1 in enumerate(first):
                    if (s, i1) not in feas:
                        continue
                    for op2 in second:
                        yield {'fe': fe, 'L': [leaf], 'ops': [op1, op2]}
    # sparse constants met by an intermediate result (only chains NumPy accepts: the sparse operand is the point)
    sp_q = _sparse_second_q()
    sp_all = sparse + [op for op in consts if op[3].get('dt') in SPARSE_DT]
    # (first alphabet, sparse alphabet): quick = reduced x reduced; thorough adds full x reduced, reduced x full
    combos = [(SECOND_Q, sp_q)] + ([(first, sp_q), (SECOND_Q, sp_all)] if thorough else [])
    memo = {}

    def ok(sh, op):          # does NumPy accept `op` on an array of shape sh (memoised: shapes x operators)
        key = (sh, id(op))
        if key not in memo:
            memo[key] = _np_shape(sh, [op])
        return memo[key]
    for fe, kinds in fes:
        for k in kinds:
            for s in PAIR_SHAPES + [(2, 1)]:
                leaf = {'k': k, 's': list(s)}
                for firsts, seconds in combos:
                    for op1 in firsts:
                        sh = ok(s, op1)
                        if sh is None:
                            continue
                        for op2 in seconds:
                            if ok(sh, op2) is not None:
                                yield {'fe': fe, 'L': [leaf], 'ops': [op1, op2]}
                if thorough:
                    for op1 in sp_all:
                        if ok(s, op1) is None:
                            continue
                        for op2 in SECOND_Q:
                            yield {'fe': fe, 'L': [leaf], 'ops': [op1, op2]}
    # ... and by the product of a decision expression with a random one (either order, `*` and `@`)
    for fe, kinds in fes:
        for k0, k1 in itertools.product(kinds, kinds):
            if not ((k0 in DEC_KINDS and k1 in RAND_KINDS) or (k0 in RAND_KINDS and k1 in DEC_KINDS)):
                continue        # other products are not affine (the one-operator pair family judges them)
            for s0, s1 in PROD_SHAPES:
                for name in ('mul', 'matmul'):
                    op1 = ['bin', name, 'l', {'leaf': 1}]
                    try:
                        a, b = np.zeros(s0), np.zeros(s1)
                        sh = (a * b if name == 'mul' else a @ b).shape
                    except Exception:  # noqa
                        continue
                    for op2 in (sp_all if thorough else sp_q):
                        if ok(sh, op2) is not None:
                            yield {'fe': fe, 'L': [{'k': k0, 's': list(s0)}, {'k': k1, 's': list(s1)}],
                                   'ops': [op1, op2]}
    # history: an intermediate object is first used in an ordinary way (indexed / summed / transposed, result
    # discarded - this fills the lazily built index caches) and the chain then continues from the same object
    pres = [['idx', '0'], ['sum', 0]] + ([['idx', '(Ellipsis,-1)'], ['T'], ['sum', None]] if thorough else [])
    last = [op for op in unary if op[0] in ('idx', 'sum')] if thorough else \
        [['idx', i] for i in ('0', '-1', '1:', '::-1', '[1,0]', '(0,0)', '(1,-1)', '(slice(None),0)', '(Ellipsis,0)',
                              '([0,1],[1,0])', '(slice(1,None),slice(None,1))', 'np.array([True,True])')] + \
        [['sum', a] for a in (None, 0, 1, -1)]
    for fe, kinds in fes:
        for k in kinds:
            for s in (shapes2 if not thorough else shapes):
                if len(s) == 0:
                    continue
                leaf = {'k': k, 's': list(s)}
                for pre in pres:
                    for op2 in last:
                        yield {'fe': fe, 'L': [leaf], 'ops': [op2], 'pre': [0, pre]}
                    for op1 in SECOND_Q:
                        if _np_shape(s, [op1]) is None:
                            continue
                        for op2 in last:
                            for pos in (0, 1) if (thorough or pre is pres[0]) else (0,):
                                yield {'fe': fe, 'L': [leaf], 'ops': [op1, op2], 'pre': [pos, pre]}
    if thorough:
        # depth 3 on a reduced alphabet
        third = SECOND_Q
        for fe, kinds in fes:
            for k in kinds:
                for s in PAIR_SHAPES:
                    leaf = {'k': k, 's': list(s)}
                    for op1 in SECOND_Q:
                        for op2 in SECOND_Q:
                            if _np_shape(s, [op1, op2]) is None:
                                continue
                            for op3 in third:
                                yield {'fe': fe, 'L': [leaf], 'ops': [op1, op2, op3]}


def _np_shape(shape, ops):
    """Shape NumPy gives to ops applied to an array of `shape`, None if NumPy raises."""
    try:
        a = np.zeros(shape)
        for op in ops:
            a = apply_op(op, a, None, None, False)
        return np.asarray(a).shape
    except Exception:  # noqa
        return None


def exhaustive(tier):
    return True


def bounds(tier):
    th = tier == 'thorough'
    return {'depth': 3 if th else 2, 'shapes': len(SHAPES_T if th else SHAPES), 'index_exprs': len(INDEXES),
            'leaf_classes': len(RO_KINDS) + len(DRO_KINDS),
            'depth2_second_level_alphabet': 'full' if th else len(SECOND_Q),
            'history': 'one discarded earlier use (index / sum) of the leaf or of the intermediate object',
            'sparse_constants': {
                'containers': sorted(SPARSE_DT.values()), 'operators': ['add', 'sub', 'mul', 'matmul'],
                'operand_orders': ['expression (op) S', 'S (op) expression'],
                'shapes': SPARSE_SHAPES_T if th else SPARSE_SHAPES,
                'depth1': 'every leaf class x shape x sparse operator',
                'depth2': ('%d first operators then %d sparse operators (NumPy-feasible chains)'
                           % (len(SECOND_Q), len(_sparse_second_q()))) +
                          ('; every first operator then these %d; these %d first operators then every sparse operator; '
                           'every sparse operator then %d second operators'
                           % (len(_sparse_second_q()), len(SECOND_Q), len(SECOND_Q)) if th else ''),
                'products': 'decision x random kind pairs (either order) x %d shape pairs x {mul, matmul} then %s'
                            % (len(PROD_SHAPES), 'every sparse operator' if th else 'the reduced sparse alphabet')}}


# ------------------------------------------------------------------------------------------------
_rs = {}


def worker_init():
    import rsome
    from rsome import ro, dro
    import rsome.lp as lp
    import scipy.sparse as sp
    _rs.update(rso=rsome, ro=ro, dro=dro, lp=lp, sp=sp)


def const_val(shape, dt='f', salt=0):
    size = int(np.prod(shape)) if len(shape) else 1
    a = ((np.arange(size) * 7 + 3 + salt) % 11 - 5)
    if dt == 'i':
        return a.reshape(shape).astype(np.int64)
    a = (a / 2.0).reshape(shape)
    return a


class Env:
    """One fresh model per case, with the leaves the case asks for."""

    def __init__(self, fe, leaves):
        self.fe = fe
        rso, ro, dro, lp = _rs['rso'], _rs['ro'], _rs['dro'], _rs['lp']
        if fe == 'ro':
            self.m = ro.Model()
            self.dec_model = self.m.rc_model
        else:
            self.m = dro.Model(2)
            self.dec_model = self.m.vt_model
        self.rand_model = self.m.sup_model
        self.zz = self.m.rvar(2)
        self.leaves = [self._leaf(sp_, i) for i, sp_ in enumerate(leaves)]

    def _leaf(self, spec, i):
        k, s = spec['k'], tuple(spec['s'])
        m = self.m
        rev = (slice(None, None, -1),) if len(s) >= 1 else Ellipsis
        if k in ('x', 'xs', 'xa', 'ya', 'xz'):
            x = m.dvar(s)
            if k == 'x':
                return x
            if k == 'xs':
                return x[rev]
            if k == 'xa':
                return 2 * x + const_val(s, salt=i)
            if k == 'ya':
                x.adapt(self.zz)
                return x
            if k == 'xz':
                return x * self.zz[0] + x
        if k in RAND_KINDS:
            z = m.rvar(s)
            if k == 'z':
                return z
            if k == 'zs':
                return z[rev]
            return z * 2 + const_val(s, salt=i + 1)
        if k in ('y', 'ys'):
            y = m.ldr(s)
            y.adapt(self.zz)
            if k == 'y':
                return y
            return y[rev]
        raise ValueError(k)


def snapshot(obj):
    """Dense copy of the observable fields of an expression object (None for lazy/plain variables)."""
    lp = _rs['lp']
    if isinstance(obj, lp.RoAffine):
        return ('ro', snapshot(obj.raffine), snapshot(obj.affine))
    if isinstance(obj, lp.Affine):
        return ('af', np.array(obj.linear.toarray()), np.array(obj.const, dtype=float, copy=True), tuple(obj.shape))
    return None


def same_snapshot(a, b):
    if a is None or b is None:
        return a is b
    if a[0] != b[0]:
        return False
    if a[0] == 'ro':
        return same_snapshot(a[1], b[1]) and same_snapshot(a[2], b[2])
    if a[3] != b[3] or a[2].shape != b[2].shape or not np.array_equal(a[2], b[2]):
        return False
    la, lb = a[1], b[1]
    if la.shape[0] != lb.shape[0]:
        return False
    w = max(la.shape[1], lb.shape[1])      # operands may legitimately be padded with zero columns
    pa = np.zeros((la.shape[0], w)); pa[:, :la.shape[1]] = la
    pb = np.zeros((lb.shape[0], w)); pb[:, :lb.shape[1]] = lb
    return np.array_equal(pa, pb)


def is_rs(obj):
    lp = _rs['lp']
    return isinstance(obj, (lp.Vars, lp.Affine, lp.RoAffine, lp.DecRule, lp.DecRuleSub))


def rs_value(obj, v, w):
    """Numerical value of an RSOME expression at decision assignment v and random assignment w."""
    lp = _rs['lp']
    if isinstance(obj, (int, float, np.number, np.ndarray)):
        return np.asarray(obj, dtype=float)
    if isinstance(obj, (lp.DecRule, lp.DecRuleSub)):
        obj = obj.to_affine()
    if isinstance(obj, lp.Vars):
        obj = obj.to_affine()
    if isinstance(obj, lp.RoAffine):
        ra = obj.raffine
        lin = ra.linear
        R = (lin @ _pad(v, lin.shape[1])).reshape(ra.const.shape) + ra.const
        val = (R @ _pad(w, R.shape[1])).reshape(obj.shape)
        return val + rs_value(obj.affine, v, w)
    if isinstance(obj, lp.Affine):
        vec = w if obj.model.mtype in 'SM' else v
        lin = obj.linear
        val = np.asarray(lin @ _pad(vec, lin.shape[1])).reshape(obj.const.shape) + obj.const
        return np.asarray(val, dtype=float)
    raise TypeError('not an expression: %r' % type(obj))


def _pad(vec, n):
    if len(vec) == n:
        return vec
    if len(vec) > n:
        return vec[:n]
    return np.concatenate([vec, np.zeros(n - len(vec))])


def rs_shape(obj):
    lp = _rs['lp']
    if isinstance(obj, (lp.DecRule, lp.DecRuleSub)):
        return tuple(obj.to_affine().shape)
    if isinstance(obj, lp.VarSub):
        return tuple(obj.to_affine().shape)
    if isinstance(obj, np.ndarray):
        return obj.shape
    if isinstance(obj, (int, float)):
        return ()
    return tuple(obj.shape)


_IDX_NS = {'np': np, 'None': None, 'Ellipsis': Ellipsis, 'slice': slice, 'True': True, 'False': False}


def _const(spec, cur_shape, rs):
    shape = spec['c']
    if shape == 'same':
        shape = list(cur_shape)
    dt = spec.get('dt', 'f')
    if dt == 'py':
        return 1.5
    if dt in ('u8', 'u16'):
        a = np.abs(const_val(tuple(shape), 'i', salt=len(shape))) + 1
        a = a.astype(np.uint8 if dt == 'u8' else np.uint16)
        return a if len(shape) else a[()]        # shape (): a NumPy unsigned scalar
    a = const_val(tuple(shape), 'i' if dt == 'i' else 'f', salt=len(shape))
    if dt in SPARSE_DT and rs and not _rs.get('dense_twin'):
        # the palette has a zero entry in every 2-D shape used, so the stored pattern is not the full one;
        # the reference side keeps the dense ndarray (RSOME documents sparse constants as their dense array)
        return getattr(_rs['sp'], SPARSE_DT[dt])(a)
    return a


def _np_diag(a, k, fill):
    if a.ndim != 2:
        raise ValueError('2-D only')
    if not fill:
        return np.diagonal(a, k).copy()
    out = np.zeros_like(a)
    r, c = a.shape
    for i in range(r):
        j = i + k
        if 0 <= j < c:
            out[i, j] = a[i, j]
    return out


def apply_op(op, e, env, vals, rs):
    """Apply op to e.  rs=True: e is an RSOME object; rs=False: e is an ndarray, `vals` = leaf values."""
    name = op[0]
    rso = _rs.get('rso')
    if name == 'neg':
        return -e
    if name == 'T':
        return e.T
    if name == 'flatten':
        return e.flatten()
    if name == 'reshape':
        return e.reshape(tuple(op[1]))
    if name == 'sum':
        ax = op[1]
        ax = tuple(ax) if isinstance(ax, list) else ax
        return e.sum(axis=ax)
    if name == 'trace':
        if rs:
            return rso.trace(e)
        if e.ndim != 2:
            raise ValueError('2-D only')
        return np.trace(e)
    if name == 'diag':
        return rso.diag(e, op[1], op[2]) if rs else _np_diag(e, op[1], op[2])
    if name in ('tril', 'triu'):
        if rs:
            return getattr(rso, name)(e, op[1])
        if e.ndim != 2:
            raise ValueError('2-D only')
        return getattr(np, name)(e, op[1])
    if name == 'idx':
        return e[eval(op[1], _IDX_NS)]
    if name == 'bin':
        _, opn, side, other = op
        if 'leaf' in other:
            o = env.leaves[other['leaf']] if rs else vals[other['leaf']]
        else:
            o = _const(other, rs_shape(e) if rs else e.shape, rs)
        a, b = (e, o) if side == 'l' else (o, e)
        if opn == 'add':
            return a + b
        if opn == 'sub':
            return a - b
        if opn == 'mul':
            return a * b
        if opn == 'matmul':
            return a @ b
    if name in ('concat', 'rstack', 'cstack', 'vec'):
        cur_shape = rs_shape(e) if rs else e.shape

        def item(it):
            if it == 'e':
                return e
            if isinstance(it, list):
                return [item(j) for j in it]
            if 'leaf' in it:
                return env.leaves[it['leaf']] if rs else vals[it['leaf']]
            c = _const(it, cur_shape, rs)
            return c
        if name == 'concat':
            items = [item(i) for i in op[2]]
            if rs:
                return rso.concat(items, axis=op[1])
            return np.concatenate([np.asarray(i, dtype=float) for i in items], axis=op[1])
        if name == 'vec':
            items = [item(i) for i in op[1]]
            if rs:
                return rso.vec(*items)
            arrs = [np.asarray(i, dtype=float) for i in items]
            if any(a.size != 1 for a in arrs):
                raise ValueError('scalars only')
            return np.concatenate([a.reshape(1) for a in arrs])
        items = [item(i) for i in op[1]]
        if rs:
            return getattr(rso, name)(*items)
        inner_axis, outer_axis = (1, 0) if name == 'rstack' else (0, 1)
        rows = []
        for it in items:
            if isinstance(it, list):
                rows.append(np.concatenate([np.asarray(j, dtype=float) for j in it], axis=inner_axis))
            else:
                rows.append(np.asarray(it, dtype=float))
        return np.concatenate(rows, axis=outer_axis)
    raise ValueError('unknown op %r' % (op,))


def _opname(op):
    if op[0] == 'bin':
        o = op[3]
        other = 'leaf' if 'leaf' in o else ('c%s%s' % (o.get('dt', 'f'), tuple(o['c']) if o['c'] != 'same' else 'same'))
        return '%s.%s(%s)' % (op[1], op[2], other)
    if op[0] in ('concat',):
        return 'concat(ax=%s,n=%d)' % (op[1], len(op[2]))
    if op[0] in ('rstack', 'cstack', 'vec'):
        return '%s(%s)' % (op[0], _layout(op[1]))
    return '%s(%s)' % (op[0], ','.join(str(a) for a in op[1:]))


def _layout(items):
    return ''.join('[' + _layout(i) + ']' if isinstance(i, list) else ('e' if i == 'e' else ('L' if 'leaf' in i else 'c'))
                   for i in items)


def run_case(case):
    lp = _rs['lp']
    fe = case['fe']
    ops = case['ops']
    nops = len(ops) + len(case['L'])
    tag = '%s|%s|%s' % (fe, '+'.join('%s%s' % (l['k'], tuple(l['s'])) for l in case['L']),
                        '>'.join(_opname(o) for o in ops))
    if case.get('pre'):
        tag += '|after %s at %d' % (_opname(case['pre'][1]), case['pre'][0])
    env = Env(fe, case['L'])
    # ---- RSOME side
    rs_err = None
    watched = [(('leaf%d' % i), l, snapshot(l)) for i, l in enumerate(env.leaves)]
    try:
        e = env.leaves[0]
        pre = case.get('pre')
        for k, op in enumerate(ops):
            if pre and pre[0] == k:
                try:
                    apply_op(pre[1], e, env, None, True)      # ordinary earlier use; the result is discarded
                except Exception:  # noqa
                    pass
            e = apply_op(op, e, env, None, True)
            if k + 1 < len(ops):
                watched.append(('step%d' % (k + 1), e, snapshot(e)))
        if isinstance(e, (lp.DecRule, lp.DecRuleSub, lp.Vars)):
            e = e.to_affine()      # lazy objects: expansion is part of the operation
    except Exception as ex:  # noqa
        rs_err = '%s: %s' % (type(ex).__name__, str(ex)[:80])
    # ---- assignments
    nd = max(env.dec_model.last, 1)
    nr = max(env.rand_model.last, 1)
    involves_rand = any(l['k'] in RAND_KINDS + ('y', 'ys', 'xz') for l in case['L'])
    v0, w0 = np.zeros(nd), np.zeros(nr)
    vs = [v0] + [np.eye(nd)[j] for j in range(nd)]
    ws = [w0] + ([np.eye(nr)[j] for j in range(nr)] if involves_rand else [])

    def ref_at(v, w):
        vals = [rs_value(l, v, w) for l in env.leaves]
        a = vals[0]
        for op in ops:
            a = apply_op(op, a, env, vals, False)
        return np.asarray(a, dtype=float)

    np_err = None
    try:
        with np.errstate(all='ignore'):
            r0 = ref_at(v0, w0)
    except Exception as ex:  # noqa
        np_err = '%s: %s' % (type(ex).__name__, str(ex)[:80])

    # operands and intermediate expressions must still denote what they denoted before they were used
    for name, obj, snap in watched:
        if snap is not None and not same_snapshot(snap, snapshot(obj)):
            return {'status': 'violation', 'sig': tag + '|operand mutated', 'ops': nops,
                    'detail': '%s changed its coefficients after being used as an operand' % name}
    if np_err is not None and rs_err is not None:
        return {'status': 'pass', 'outcome': 'both_raise', 'ops': nops, 'nontrivial': False}
    if rs_err is not None:
        # A sparse constant denotes its dense array.  If RSOME accepts the chain with the dense array and the
        # sparse container makes it fail with anything but a TypeError (its way of refusing an operand type:
        # 'Expression not supported.'), the operation is one RSOME supports and the container broke it.
        if _has_sparse(case) and not rs_err.startswith('TypeError') and _dense_twin_ok(case):
            return {'status': 'violation', 'ops': nops,
                    'sig': tag + '|sparse operand raises %s (its dense array is accepted)' % rs_err.split(':')[0],
                    'detail': rs_err}
        return {'status': 'unsupported', 'outcome': 'unsupported:' + rs_err.split(':')[0], 'ops': nops,
                'detail': rs_err}
    if not (is_rs(e) or isinstance(e, (np.ndarray, float, int, np.number))):
        return {'status': 'violation', 'sig': tag + '|returns ' + type(e).__name__, 'ops': nops,
                'detail': 'result is not an expression: %r' % (e,)}
    if np_err is not None:
        # bilinear products of same-type expressions are not affine: NumPy has no counterpart here
        return {'status': 'vacuous', 'outcome': 'extension(numpy raises)', 'ops': nops, 'detail': np_err}
    # same-type products: NumPy result is not affine -> RSOME must not have returned anything
    if _is_bilinear_same(case):
        return {'status': 'violation', 'sig': tag + '|bilinear product accepted', 'ops': nops,
                'detail': 'product of two expressions of the same kind returned %r' % (e,)}
    shp = rs_shape(e)
    if tuple(shp) != tuple(r0.shape):
        return {'status': 'violation', 'sig': tag + '|shape', 'ops': nops,
                'detail': 'rsome shape %s numpy shape %s' % (tuple(shp), tuple(r0.shape))}
    dep = False
    for v in vs:
        for w in ws:
            try:
                a = rs_value(e, v, w)
            except Exception as ex:  # noqa
                return {'status': 'violation', 'sig': tag + '|malformed', 'ops': nops,
                        'detail': 'cannot evaluate result fields: %s %s' % (type(ex).__name__, ex)}
            b = ref_at(v, w)
            if a.shape != b.shape or not np.allclose(a, b, rtol=0, atol=1e-9):
                return {'status': 'violation', 'sig': tag + '|value', 'ops': nops,
                        'detail': 'at v=%s w=%s rsome=%s numpy=%s' % (np.flatnonzero(v).tolist(),
                                                                       np.flatnonzero(w).tolist(),
                                                                       a.tolist(), b.tolist())}
            if not dep and not np.array_equal(b, r0):
                dep = True
    return {'status': 'pass', 'outcome': 'equal', 'ops': nops, 'nontrivial': bool(dep and r0.size > 0),
            'validated': 1}


def _has_sparse(case):
    return any(op[0] == 'bin' and op[3].get('dt') in SPARSE_DT for op in case['ops'])


def _dense_twin_ok(case):
    """Second RSOME run of the same chain (fresh model) with every sparse constant replaced by its dense array."""
    _rs['dense_twin'] = True
    try:
        env = Env(case['fe'], case['L'])
        e = env.leaves[0]
        pre = case.get('pre')
        for k, op in enumerate(case['ops']):
            if pre and pre[0] == k:
                try:
                    apply_op(pre[1], e, env, None, True)
                except Exception:  # noqa
                    pass
            e = apply_op(op, e, env, None, True)
        return True
    except Exception:  # noqa
        return False
    finally:
        _rs['dense_twin'] = False


def _is_bilinear_same(case):
    ops = case['ops']
    if len(ops) != 1 or ops[0][0] != 'bin' or 'leaf' not in ops[0][3] or ops[0][1] not in ('mul', 'matmul'):
        return False
    k0, k1 = case['L'][0]['k'], case['L'][1]['k']

    def cls(k):
        if k in RAND_KINDS:
            return 'r'
        if k in ('x', 'xs', 'xa'):
            return 'd'
        return 'b'      # depends on both (rules, bi-affine)
    c0, c1 = cls(k0), cls(k1)
    return not ((c0 == 'd' and c1 == 'r') or (c0 == 'r' and c1 == 'd'))
