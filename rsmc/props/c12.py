"""C12 - solution queries return the right numbers for the right objects.

Every case builds a model whose optimum is unique and known in closed form (every variable entry pinned to a distinct
dyadic value - per entry and, in dro, per event), solves it with the default LP solver and exercises one *query class*:

  var     model.get() (min/max, sign), x.get(), x(), x[idx](), x[idx].get()   for variables of all small shapes
  aff     calls of affine expressions (A@x+b)(), sums, transposes, slices ... built before / after the solve
  cvx     calls of convex/concave expressions: every atom x inner argument x multiplier x sign x offset chain
  biaff   calls of bi-affine expressions with z.assign(...) realisations (zero when unspecified, scenario-wise ones)
  ldr     ro decision-rule queries y.get(), y.get(z), y.get(z[..]), y(...), sub-rules, under every dependency mask
  evt     dro event-wise decisions under every adapt history (all orders, non-contiguous blocks, unordered labels)
  dadapt  dro affinely adaptive event-wise decisions: x.get(), x.get(z), x(z.assign(..)), scenario-wise assign
  margs   calls with SEVERAL realisation arguments: a decision rule that depends on three random variables z (2), w (3),
          u () under a dependency pattern (per rule row and variable: none / whole variable / some components), evaluated
          through 13 expression forms (variable, slices, affine, bi-affine with static / event-wise decisions) at EVERY
          argument pattern {each of z, w, u: absent (= zero) | common value | common scalar broadcast (thorough) |
          scenario-wise values (dro)} in EVERY argument order; dro (1-3 scenarios, adapt histories, label kinds) and ro (ldr)

Oracle: NumPy closed forms (c12c13_atoms) at the pinned values, and every reported number is also compared with the raw
solver vector model.solution.x read through reference index arithmetic (tolerance 1e-9 against the raw vector, 1e-6
against the closed form).
"""
import itertools
import numpy as np

from ..ref import c12c13_part as P
from ..ref import c12c13_atoms as At

PROPERTY = 'C12'
TIMEOUT = 60.0
CHUNK = 16
FLOOR = 0.4
RULE = ('product of {front end} x {variable shapes / expression / atom x inner x chain x multiplier / bi-affine form x assign '
        'pattern / dependency mask / adapt history x labels} x {query class}; one solved pinned model per case.  Family margs: '
        'product of {ro ldr | dro scenarios x labels x adapt history} x {dependency pattern of a 2-entry rule on z(2), w(3), u()} x '
        '{argument class: no scenario-wise argument | only scenario-wise | mixed}; each case evaluates 13 expression forms at '
        'every argument list of its class (each of z, w, u absent / common / common scalar / scenario-wise, every argument '
        'order) against x_s = c_s + Cz_s z + Cw w + cu u read from the raw solver vector.  A passing '
        'case is non-trivial when the solver reported an optimal solution, the raw solver vector holds the pinned values at '
        'the reference positions (measured) and the expected answer is not constant (distinct entries / events), so that a '
        'wrong index, sign, offset or label changes it; distinct = distinct canonical case')
ASSUMPTIONS = [
    'pinned models have a unique optimum (equalities / tight bounds / strictly monotone linear objective); verified per case '
    'by comparing the raw solver vector with the closed form (1e-6)',
    'queries are compared with NumPy evaluated at the raw solver vector with 1e-9*(1+|v|); against closed forms with 1e-6',
    'an exception raised by a query is "unsupported" (C12 is conditional), never a violation',
    'a query on a quantity that is the same in all scenarios may return a plain value or an all-equal Series',
    'a random variable that is not mentioned in a call is evaluated at zero; scenario-wise values given as an array are '
    'attached to the scenarios by position (first axis = scenarios in the order of the model); common and scenario-wise '
    'realisations of different random variables may be mixed in one call, in any argument order (RSOME user guide)',
    'reference layout of the dro solver vector: epigraph, internal objective decision, then per decision one block of '
    'size entries per event in the order (remainder, declared blocks in call order) (tests/test_dro_dvar.py)',
]
TRUSTED = ['CPython', 'NumPy', 'pandas Series indexing', 'HiGHS through the rsome default solver',
           'c12c13_atoms / c12c13_part reference models']

LAYOUTS = {'A': [(), (2,), (2, 3)], 'B': [(3,), (1,), (2, 1, 2), ()], 'C': [(1, 2), (2, 2)], 'D': [(2, 2, 2)], 'E': [(4,)]}
SLICES = {1: ['0', '-1', 'slice(1,None)', 'slice(None,None,-1)', '[1,0]', 'slice(0,1)'],
          2: ['0', '(0,1)', '(slice(None),0)', '(slice(None),slice(0,1))', '(-1,slice(None,None,-1))', '([0,1],[1,0])'],
          3: ['1', '(0,0,1)', '(slice(None),0)', '(Ellipsis,-1)', '(1,slice(None),slice(None,None,-1))']}
VAR_Q = ('objective', 'get', 'call', 'slice.call', 'slice.get')
AFF_EXPRS = ('x+1', '2*x-c', 'x.sum()', 'x.sum(0)', 'x.sum(1)+y[:2]', 'x.T', 'x@M32', 'M22@x', 'x[0]+y', '-y', 'y*c3',
             'x.reshape(3,2)', 's+1', 's*c3+y', 'x[1,2]', 'concat(y,x[0])', 'y@c3', 'trace(x[:,:2])', 'c23*x', '(x+1)[0]',
             'x-x', 'y[::-1]-y', '(x@M32).T+s', 'x[0]@M32', 'y+s', 's', 'y', 'x', 'x[:,1]', 'y.to_affine()',
             '0*y+2',
             # stacked expressions in both item orders (s is static, y/x event-wise in the dro3 front end)
             'vec(s,y[0])', 'vec(y[0],s)', 'vec(1.5,y[1])', 'concat(c3,y)', 'concat(y,c3)', 'concat(s1,y)', 'concat(y,s1)',
             'rstack(s2,x[:1])', 'rstack(x[:1],s2)', 'cstack(s2.T,x[:,:1])', 'cstack(x[:,:1],s2.T)')
CVX_FES = ('ro', 'dro1', 'dro3:xe', 'dro3:ye', 'dro3:xye')
CHAIN_K_FULL = [('f', 1.0)] + [(c, k) for c in At.CHAINS if c != 'f' for k in At.KS]
CHAIN_K_FULL_Q = [('f', 1.0)] + [(c, k) for c in At.CHAINS if c != 'f' for k in (2.0, -1.0, -0.5)]
CHAIN_K_RED = [('f', 1.0), ('k*f', -1.0), ('k*f+c', 2.0), ('c-k*f', 0.5), ('k*f+a', -2.0), ('a+k*f', -1.0),
               ('(k*f+c)*h+g', 0.5), ('k*f+s', 2.0)]
BI_EXPRS = ('x*z', 'z*x', 'x@z', 'bilin', '(x*z).sum()', 'x[0]*z', 'x*w', 'x*z+y*w', 'x*z+w', 'z+x', '(x*z)[1]',
            '2*(x*z)-1', 'x*z-y', 'x*z[::-1]', 's*z', 'x*w+z', 'z@M22@x')
BI_ASSIGN = ('none', 'z', 'w', 'zw', 'wz', 'sw:z', 'sw:zw', 'sw:series')
LDR_Q = ('get', 'coef', 'coef.slice', 'call', 'subcall', 'affcall', 'raw')
LDR_SPECS_Q = [('z3', 2), ('z2w', 2), ('z2', 1), ('z2', 2)]
EVT_Q = ('objective', 'get', 'call', 'slice.call', 'aff.call', 'cvx.call', 'mix.call', 'mixcvx.call', 'biaff.call', 'sub.get',
         'stack.call')
DAD_Q = ('get', 'coef', 'coef.slice', 'call', 'call.partial', 'call.sw', 'aff.call', 'biaff.call')
# ---- margs: calls with several realisation arguments
MARG_EXPRS = ('x', 'x[1]', 'x[::-1]', 'M22@x+1', '3*x[0]-2*x[1]+1.5', 'x.sum()', 'x+pre',
              'q0*z+x', '(pre*z).sum()+x[0]', 'pre*z', 'u*pre+x', 'pre[0]*w[:2]+x', 'x[0]+pre@z')
MARG_BIAFF = MARG_EXPRS[7:]          # bi-affine forms: evaluated for the declaration order of the arguments and its reverse
# dependency pattern: rows = entries of the rule, columns = (z, w, u); 0 none, 1 whole variable, 2 some components (z[1], w[1:])
MARG_DEPS_Q = [[[a, b, c], [a, b, c]] for a in (0, 1) for b in (0, 1) for c in (0, 1)] + \
    [[[1, 0, 0], [0, 1, 0]], [[1, 1, 0], [0, 1, 1]], [[0, 0, 1], [1, 0, 0]], [[1, 1, 1], [0, 0, 0]],
     [[2, 1, 0], [1, 2, 1]], [[1, 2, 1], [2, 0, 0]]]
MARG_CONF_Q = [(1, 'int', []), (2, 'str', []), (2, 'str', [[1]]), (2, 'int', [[1], [0]]), (3, 'str', []), (3, 'str', [[1]]),
               (3, 'int', [[2], [0]]), (3, 'perm', [[0, 2]]), (3, 'str', [[1], [2], [0]])]
MARG_CONF_FULL = [(2, 'int', [[1], [0]]), (3, 'str', [[1]])]       # configurations that run every dependency pattern in quick
MARG_DEPS_CORE = [[[1, 1, 1], [1, 1, 1]], [[1, 1, 0], [0, 1, 1]], [[2, 1, 0], [1, 2, 1]], [[0, 1, 0], [0, 1, 0]]]
MARG_GROUPS = ('common', 'sw', 'mixed')
ALIAS_FES = ('ro', 'lp', 'gcp', 'dro1', 'dro3', 'roldr')
ALIAS_Q = ('x.get()', 'y.get()', 's.get()', 'x()', 'y()', '(2*x-c)()', 'x[0]()', 'abs(y)()', 'coef', 'model.get()')
DAD_MASKS_Q = [[[1, 1], [1, 1]], [[1, 0], [0, 1]], [[0, 1], [1, 0]], [[1, 1], [0, 0]], [[0, 0], [0, 1]], [[1, 0], [1, 1]]]


def _ns(tier):
    return (1, 2, 3, 4) if tier == 'thorough' else (1, 2, 3)


def _atom_inners(name):
    kind, dom = At.ATOMS[name]
    # 'lin': mixed signs, extremal magnitude positive; 'neg': mixed signs, extremal magnitude NEGATIVE (max|v| != |max v|)
    inn = ['x', 'pos'] if dom == '+' else ['x', 'lin', 'neg']
    if kind == 'vec':
        inn.append('rev')
    return inn


def _atom_shapes(name):
    kind, _ = At.ATOMS[name]
    if kind == 'vec':
        return ['v3']
    if name == 'powerv':
        return ['v3']
    return ['v3', 's', 'm22']


def gen_cases(tier, seed):
    """All cases; the development aid C12C13_FAM=fam1,fam2 restricts the families (then `exhaustive` is False)."""
    fams = _fam_filter()
    for case in _gen_all(tier, seed):
        if fams is None or case['fam'] in fams:
            yield case


def _fam_filter():
    import os
    f = os.environ.get('C12C13_FAM')
    return set(f.split(',')) if f else None


def _gen_all(tier, seed):
    th = tier == 'thorough'
    pal = seed % 4
    pals = (0, 1, 2, 3) if th else (pal,)
    # ---- var
    for fe in ('ro', 'lp', 'gcp', 'dro1', 'dro2'):
        for lay in LAYOUTS:
            for pin in ('eq', 'bnd', 'obj'):
                for sense in ('min', 'max'):
                    for objform in (('det',) if not fe.startswith('dro') else ('wc', 'E')):
                        for q in VAR_Q:
                            if q != 'objective' and (sense == 'max' or objform == 'E') and not th:
                                continue
                            for pl in pals:
                                yield {'fam': 'var', 'fe': fe, 'lay': lay, 'pin': pin, 'sense': sense, 'of': objform,
                                       'q': q, 'pal': pl}
    # ---- aff
    for fe in ('ro', 'dro1', 'dro3'):
        for ex in AFF_EXPRS:
            for when in ('pre', 'post'):
                for pl in pals:
                    yield {'fam': 'aff', 'fe': fe, 'ex': ex, 'when': when, 'pal': pl}
    # ---- cvx
    for fe in CVX_FES:
        for atom in At.ATOMS:
            for sh in _atom_shapes(atom):
                for inner in _atom_inners(atom):
                    full = (th or (fe in ('ro', 'dro1') and inner == 'x' and sh == 'v3')) and atom != 'gmean'
                    cks = (CHAIN_K_FULL if th else CHAIN_K_FULL_Q + [ck for ck in CHAIN_K_RED if ck not in CHAIN_K_FULL_Q]) \
                        if full else CHAIN_K_RED
                    for chain, k in cks:
                        for when in (('pre', 'post') if (chain, k) in (CHAIN_K_RED if th else CHAIN_K_RED[:3]) else ('pre',)):
                            yield {'fam': 'cvx', 'fe': fe, 'atom': atom, 'sh': sh, 'inner': inner, 'chain': chain, 'k': k,
                                   'when': when, 'pal': pal}
    # ---- alias: in-place mutation of a returned array must not change any later query
    for fe in ALIAS_FES:
        for solver in ('default', 'eco'):
            for q1 in ALIAS_Q:
                if q1 == 'coef' and fe != 'roldr':
                    continue
                for pl in pals:
                    yield {'fam': 'alias', 'fe': fe, 'solver': solver, 'q1': q1, 'pal': pl}
    # ---- biaff
    for fe in ('ro', 'dro1', 'dro3'):
        for ex in BI_EXPRS:
            for asg in BI_ASSIGN:
                if fe == 'ro' and asg.startswith('sw'):
                    continue
                for pl in pals:
                    yield {'fam': 'biaff', 'fe': fe, 'ex': ex, 'asg': asg, 'pal': pl}
    # ---- ldr
    from ..ref.c12c13_build import RAND_LAYOUTS
    specs = LDR_SPECS_Q + ([('wz2', 2), ('z1', 2)] if th else [])
    for rl, nrows in specs:
        d = sum(max(s, 1) for s in RAND_LAYOUTS[rl])
        for mask in P.all_masks(nrows, d):
            for pin in ('tau', 'eq'):
                for q in LDR_Q:
                    for pl in pals:
                        yield {'fam': 'ldr', 'rl': rl, 'rows': nrows, 'mask': mask, 'pin': pin, 'q': q, 'pal': pl}
    # ---- margs (generated before the cheap evt / dadapt families: its cases are the longest ones)
    deps_all = _marg_deps_all()
    for dep in (deps_all if th else MARG_DEPS_Q):
        for pl in pals:
            yield {'fam': 'margs', 'fe': 'ro', 'n': 1, 'lab': 'int', 'hist': [], 'dep': dep, 'grp': 'common', 'pal': pl,
                   'kinds': '-cb'}
    for n, lab, hist, deps, kinds in _marg_confs(th):
        for dep in deps:
            for grp in MARG_GROUPS:
                yield {'fam': 'margs', 'fe': 'dro', 'n': n, 'lab': lab, 'hist': hist, 'dep': dep, 'grp': grp, 'pal': pal,
                       'kinds': kinds}
    # ---- evt
    for n in _ns(tier):
        for hist in P.adapt_histories(n):
            for lab in P.LABEL_KINDS:
                if n == 1 and lab == 'perm':
                    continue
                for pin in ('eq', 'obj'):
                    for q in EVT_Q:
                        if pin == 'obj' and q not in ('objective', 'get', 'call') and not th:
                            continue
                        for sense in (('min', 'max') if q == 'objective' else ('min',)):
                            for pl in (pals if q in ('objective', 'get', 'call') else (pal,)):
                                yield {'fam': 'evt', 'n': n, 'lab': lab, 'hist': hist, 'pin': pin, 'q': q, 'sense': sense,
                                       'pal': pl}
    # ---- dadapt
    masks = P.all_masks(2, 2) if th else DAD_MASKS_Q
    for n in _ns(tier):
        if n == 4:
            hists = [P.canonical_history(pt, 4) for pt in P.set_partitions(4)] + [[[1, 3]], [[3], [1]], [[2], [0, 3]]]
        else:
            hists = P.adapt_histories(n)
        for hist in hists:
            for lab in ('int', 'str'):
                for mask in masks:
                    for q in DAD_Q:
                        yield {'fam': 'dadapt', 'n': n, 'lab': lab, 'hist': hist, 'mask': mask, 'q': q, 'pal': pal}


def _marg_deps_all():
    out = [[list(r0), list(r1)] for r0 in itertools.product((0, 1), repeat=3) for r1 in itertools.product((0, 1), repeat=3)]
    return out + [d for d in MARG_DEPS_Q if d not in out]


def _marg_confs(th):
    """(scenarios, label kind, adapt history, dependency patterns, argument kinds) of the dro part of the margs family."""
    confs = [(n, lab, h, MARG_DEPS_Q if (n, lab, h) in MARG_CONF_FULL else MARG_DEPS_CORE, '-cs') for n, lab, h in MARG_CONF_Q]
    if th:
        confs = [(n, lab, h, _marg_deps_all(), '-cs') for n, lab, h in MARG_CONF_Q] + \
                [(n, lab, h, MARG_DEPS_Q, '-cbs') for n, lab, h in MARG_CONF_Q] + \
                [(n, lab, h, MARG_DEPS_CORE, '-cs') for n in (1, 2, 3) for h in P.adapt_histories(n) for lab in ('int', 'str')
                 if (n, lab, h) not in MARG_CONF_Q]
    return confs


def exhaustive(tier):
    return _fam_filter() is None


def bounds(tier):
    th = tier == 'thorough'
    return {'scenarios_max': 4 if th else 3, 'adapt_histories': {n: len(P.adapt_histories(n)) for n in _ns(tier)},
            'labels': list(P.LABEL_KINDS), 'variable_layouts': {k: [list(s) for s in v] for k, v in LAYOUTS.items()},
            'affine_expressions': len(AFF_EXPRS), 'atoms': len(At.ATOMS), 'chains': len(At.CHAINS), 'multipliers': list(At.KS),
            'biaffine_expressions': len(BI_EXPRS), 'assign_patterns': list(BI_ASSIGN),
            'margs': {'random_variables': {'z': 2, 'w': 3, 'u': 0}, 'expressions': list(MARG_EXPRS),
                      'argument_kinds': {'ro': '-cb', 'dro': '-cbs' if th else '-cs'},
                      'argument_orders': 'all permutations (bi-affine forms: declaration order and its reverse)',
                      'dependency_patterns': len(_marg_deps_all()) if th else len(MARG_DEPS_Q),
                      'dro_models': sum(len(c[3]) for c in _marg_confs(th)),
                      'dro_configurations': len({(c[0], c[1], str(c[2])) for c in _marg_confs(th)})},
            'ldr_mask_cells_max': 6, 'dadapt_masks': 16 if th else len(DAD_MASKS_Q), 'palettes': 4 if th else 1}


# =====================================================================================================
_rs = {}


def worker_init():
    from ..ref import c12c13_build as Bd
    _rs.update(Bd.init())
    _rs['B'] = Bd


def run_case(case):
    LOOSE[0] = False
    return globals()['_run_' + case['fam']](case)


def _viol(sig, detail, ops, **kw):
    d = {'status': 'violation', 'sig': sig, 'detail': str(detail)[:700], 'ops': ops}
    d.update(kw)
    return d


# ---------------------------------------------------------------- comparators
LOOSE = [False]      # cvx family: a 1-element array is accepted where NumPy gives a 0-d value (square of a scalar)


def cmp_plain(obs, exp, tol=1e-9):
    """None if obs is the array/scalar exp (shape and values, NaN pattern included), else a failure class."""
    pd = _rs['pd']
    exp = np.asarray(exp, dtype=float)
    if isinstance(obs, pd.Series):
        return 'type'
    try:
        o = np.asarray(obs, dtype=float)
    except Exception:  # noqa
        return 'type'
    if LOOSE[0] and exp.shape == () and o.shape == (1,):
        o = o.reshape(())
    if o.shape != exp.shape:
        return 'shape'
    if not np.array_equal(np.isnan(o), np.isnan(exp)):
        return 'nan pattern'
    scale = 1.0 + (np.nanmax(np.abs(exp)) if exp.size and not np.all(np.isnan(exp)) else 0.0)
    if not np.allclose(o, exp, rtol=0, atol=tol * scale, equal_nan=True):
        return 'value'
    return None


def cmp_scen(obs, exps, labels, tol=1e-9):
    """obs against per-scenario-position expectations.  Returns None or a failure class."""
    pd = _rs['pd']
    n = len(labels)
    same = all(np.asarray(e).shape == np.asarray(exps[0]).shape and
               np.allclose(np.asarray(e, dtype=float), np.asarray(exps[0], dtype=float), rtol=0, atol=1e-12, equal_nan=True)
               for e in exps)
    if isinstance(obs, pd.Series):
        if len(obs) != n or list(obs.index) != list(labels):
            if len(obs) != n or sorted(map(str, obs.index)) != sorted(map(str, labels)):
                return 'scenario labels'
        fails = []
        for pos, lab in enumerate(labels):
            try:
                item = obs.loc[lab]
            except Exception:  # noqa
                return 'scenario labels'
            f = cmp_plain(item, exps[pos], tol)
            if f:
                fails.append(f)
        if not fails:
            return None
        # do the reported values match the expected ones up to a permutation of the scenarios?
        items = [obs.iloc[i] for i in range(n)]
        for perm in itertools.permutations(range(n)):
            if all(cmp_plain(items[i], exps[perm[i]], tol) is None for i in range(n)):
                return 'values attached to the wrong scenarios'
        return fails[0]
    if same:
        return cmp_plain(obs, exps[0], tol)
    for pos in range(n):
        if cmp_plain(obs, exps[pos], tol) is None:
            return 'single value returned for an event-wise quantity'
    return 'value'


def _nontrivial(exps):
    a = np.concatenate([np.asarray(e, dtype=float).ravel() for e in exps]) if len(exps) else np.zeros(0)
    a = a[~np.isnan(a)]
    if a.size == 0:
        return False
    if a.size == 1:
        return bool(abs(a[0]) > 1e-9)
    return bool(np.ptp(a) > 1e-9)


class Tally:
    """Collects the outcome of the items of one case: first violation wins, raises are counted."""

    def __init__(self, tag, env_ops):
        self.tag, self.ops = tag, env_ops
        self.ok = 0
        self.raised = {}
        self.viol = None
        self.nt = False

    def item(self, what, fn, exps, labels=None, tol=1e-9, cls=None):
        if self.viol is not None:
            return
        Bd = _rs['B']
        try:
            obs = fn()
            self.ops()
        except Exception as ex:  # noqa
            key = Bd.errname(ex)
            self.raised[key] = self.raised.get(key, 0) + 1
            return
        if labels is None:
            f = cmp_plain(obs, exps, tol)
            nt = _nontrivial([exps])
        else:
            f = cmp_scen(obs, exps, labels, tol)
            nt = _nontrivial(exps)
        if f:
            if cls is not None and f in ('value', 'shape'):
                f = cls(obs) or f
            self.viol = (f, '%s: observed %s expected %s' % (what, _short(obs), _short(exps)))
        else:
            self.ok += 1
            self.nt = self.nt or nt

    def result(self, outcome):
        if self.viol is not None:
            return _viol('%s|%s' % (self.tag, self.viol[0]), self.viol[1], self.ops.n)
        if self.ok == 0:
            return {'status': 'unsupported', 'outcome': '%s:raises %s' % (outcome, '/'.join(sorted(self.raised)) or 'nothing to query'),
                    'ops': self.ops.n}
        oc = outcome + ':ok' + (' (some items raise %s)' % '/'.join(sorted(self.raised)) if self.raised else '')
        return {'status': 'pass', 'outcome': oc, 'ops': self.ops.n, 'nontrivial': bool(self.nt), 'validated': self.ok}


def _short(v):
    pd = _rs['pd']
    if isinstance(v, pd.Series):
        return '{' + ', '.join('%s: %s' % (i, _short(x)) for i, x in v.items()) + '}'
    if isinstance(v, list):
        return '[' + '; '.join(_short(x) for x in v) + ']'
    try:
        return np.array2string(np.asarray(v, dtype=float), precision=6, separator=',').replace('\n', '')
    except Exception:  # noqa
        return repr(v)[:80]


def _solve_env(env, tag):
    """Solve; returns a result dict to return early, or None when the pinned optimum was reproduced."""
    Bd = _rs['B']
    try:
        ok = env.solve()
    except Exception as ex:  # noqa
        return {'status': 'vacuous', 'outcome': 'solve raises %s' % Bd.errname(ex), 'ops': env.ops.n, 'detail': str(ex)[:200]}
    if not ok:
        return {'status': 'vacuous', 'outcome': 'not optimal', 'ops': env.ops.n}
    bad = env.check_raw()
    if bad:
        return _viol(tag + '|raw solver vector does not hold the pinned optimum at the reference positions', bad, env.ops.n)
    return None


_NS = {'slice': slice, 'Ellipsis': Ellipsis}


# ---------------------------------------------------------------- var
def _run_var(case):
    Bd = _rs['B']
    fe, q = case['fe'], case['q']
    shapes = LAYOUTS[case['lay']]
    specs = [{'name': 'v%d' % i, 'shape': s} for i, s in enumerate(shapes)]
    env = Bd.Env(fe, specs, case['pal'], case['pin'], case['sense'], positive=False,
                 objform=case['of'] if fe.startswith('dro') else 'wc')
    fek = 'ro' if fe == 'ro' else ('dro' if fe.startswith('dro') else 'lp')
    tag = 'var|%s|%s' % (fek, q)
    early = _solve_env(env, 'var|%s' % fek)
    if early:
        return early
    m = env.m
    T = Tally(tag, env.ops)
    if q == 'objective':
        T.tag = 'var|%s|objective|%s' % (fek, case['sense'])
        T.item('model.get()', lambda: m.get(), env.expected_objective(), tol=1e-6)
    for nm in env.order:
        x = env.vars[nm]
        raw = env.raw(nm, 0)
        if q == 'get':
            T.item('%s.get()' % nm, lambda: x.get(), raw)
        elif q == 'call':
            T.item('%s()' % nm, lambda: x(), raw)
        elif q in ('slice.call', 'slice.get'):
            for ix in SLICES.get(raw.ndim, []):
                idx = eval(ix, _NS)
                try:
                    want = raw[idx]
                except Exception:  # noqa
                    continue
                if q == 'slice.call':
                    T.item('%s[%s]()' % (nm, ix), lambda: x[idx](), want)
                else:
                    T.item('%s[%s].get()' % (nm, ix), lambda: x[idx].get(), want,
                           cls=lambda o: 'whole variable returned' if cmp_plain(o, raw) is None else None)
    return T.result('var:' + q)


# ---------------------------------------------------------------- aff
C23 = np.array([[0.5, -1.0, 2.0], [1.5, 0.25, -0.75]])
C3 = np.array([2.0, -0.5, 1.25])
M32 = np.array([[1.0, 0.5], [-2.0, 1.0], [0.25, 3.0]])
M22 = np.array([[1.0, -1.0], [0.5, 2.0]])


class _NpLib:
    @staticmethod
    def concat(items, axis=0):
        return np.concatenate([np.atleast_1d(np.asarray(i, dtype=float)) for i in items], axis=axis)

    @staticmethod
    def trace(a):
        return np.trace(a)

    @staticmethod
    def vec(*items):
        return np.array([float(np.asarray(i, dtype=float)) for i in items])

    @staticmethod
    def rstack(*items):          # 2-D operands only
        return np.vstack([np.asarray(i, dtype=float) for i in items])

    @staticmethod
    def cstack(*items):          # 2-D operands only
        return np.hstack([np.asarray(i, dtype=float) for i in items])


def _aff_expr(name, x, y, s, L, is_np):
    if name == 'x+1':
        return x + 1
    if name == '2*x-c':
        return 2 * x - C23
    if name == 'x.sum()':
        return x.sum()
    if name == 'x.sum(0)':
        return x.sum(axis=0)
    if name == 'x.sum(1)+y[:2]':
        return x.sum(axis=1) + y[:2]
    if name == 'x.T':
        return x.T
    if name == 'x@M32':
        return x @ M32
    if name == 'M22@x':
        return M22 @ x
    if name == 'x[0]+y':
        return x[0] + y
    if name == '-y':
        return -y
    if name == 'y*c3':
        return y * C3
    if name == 'x.reshape(3,2)':
        return x.reshape((3, 2))
    if name == 's+1':
        return s + 1
    if name == 's*c3+y':
        return s * C3 + y
    if name == 'x[1,2]':
        return x[1, 2]
    if name == 'concat(y,x[0])':
        return L.concat((y, x[0]))
    if name == 'y@c3':
        return y @ C3
    if name == 'trace(x[:,:2])':
        return L.trace(x[:, :2])
    if name == 'c23*x':
        return C23 * x
    if name == '(x+1)[0]':
        return (x + 1)[0]
    if name == 'x-x':
        return x - x
    if name == 'y[::-1]-y':
        return y[::-1] - y
    if name == '(x@M32).T+s':
        return (x @ M32).T + s
    if name == 'x[0]@M32':
        return x[0] @ M32
    if name == 'y+s':
        return y + s
    if name == 's':
        return s
    if name == 'y':
        return y
    if name == 'x':
        return x
    if name == 'x[:,1]':
        return x[:, 1]
    if name == 'y.to_affine()':
        return y if is_np else y.to_affine()
    if name == '0*y+2':
        return 0 * y + 2
    if name == 'vec(s,y[0])':
        return L.vec(s, y[0])
    if name == 'vec(y[0],s)':
        return L.vec(y[0], s)
    if name == 'vec(1.5,y[1])':
        return L.vec(1.5, y[1])
    if name == 'concat(c3,y)':
        return L.concat((C3, y))
    if name == 'concat(y,c3)':
        return L.concat((y, C3))
    s1 = (s * np.ones(2)) if is_np else (s * np.ones(2))        # a static 1-D expression
    if name == 'concat(s1,y)':
        return L.concat((s1, y))
    if name == 'concat(y,s1)':
        return L.concat((y, s1))
    s2 = (s * np.ones((1, 2)) + np.array([[0.0, 1.0]]))          # a static 1x2 expression
    if name == 'rstack(s2,x[:1])':
        return L.rstack(s2, x[:1, :2])
    if name == 'rstack(x[:1],s2)':
        return L.rstack(x[:1, :2], s2)
    if name == 'cstack(s2.T,x[:,:1])':
        return L.cstack(s2.T, x[:, :1])
    if name == 'cstack(x[:,:1],s2.T)':
        return L.cstack(x[:, :1], s2.T)
    raise KeyError(name)


def _std_specs(fe):
    if fe == 'dro3':
        return [{'name': 'x', 'shape': (2, 3), 'hist': [[1]]}, {'name': 'y', 'shape': (3,), 'hist': [[2], [0]]},
                {'name': 's', 'shape': ()}]
    return [{'name': 'x', 'shape': (2, 3)}, {'name': 'y', 'shape': (3,)}, {'name': 's', 'shape': ()}]


def _run_aff(case):
    Bd = _rs['B']
    rso = _rs['rso']
    fe, ex, when = case['fe'], case['ex'], case['when']
    env = Bd.Env(fe, _std_specs(fe), case['pal'], 'eq', 'min', lab='str' if fe == 'dro3' else 'int', positive=False)
    fek = 'ro' if fe == 'ro' else ('dro' if fe == 'dro1' else 'dro-eventwise')
    tag = 'aff|%s|%s' % (fek, ex)
    x, y, s = env.vars['x'], env.vars['y'], env.vars['s']
    e = None
    if when == 'pre':
        try:
            e = _aff_expr(ex, x, y, s, rso, False)
            env.ops()
        except Exception as exn:  # noqa
            return {'status': 'unsupported', 'outcome': 'aff:building raises %s' % Bd.errname(exn), 'ops': env.ops.n}
    early = _solve_env(env, 'aff|%s' % fek)
    if early:
        return early
    if when == 'post':
        try:
            e = _aff_expr(ex, x, y, s, rso, False)
            env.ops()
        except Exception as exn:  # noqa
            return {'status': 'unsupported', 'outcome': 'aff:building raises %s' % Bd.errname(exn), 'ops': env.ops.n}
    exps = [np.asarray(_aff_expr(ex, env.raw('x', p), env.raw('y', p), env.raw('s', p), _NpLib, True), dtype=float)
            for p in range(env.n)]
    T = Tally(tag, env.ops)
    if not callable(e):
        return {'status': 'unsupported', 'outcome': 'aff:result not callable (%s)' % type(e).__name__, 'ops': env.ops.n}
    T.item('(%s)()' % ex, lambda: e(), exps, labels=env.labels)
    return T.result('aff')


# ---------------------------------------------------------------- cvx
def _rs_atom(name, arg, rso, svar):
    if name == 'abs':
        return abs(arg)
    if name == 'square':
        return rso.square(arg)
    if name == 'exp':
        return rso.exp(arg)
    if name == 'softplus':
        return rso.softplus(arg)
    if name == 'log':
        return rso.log(arg)
    if name == 'power3':
        return rso.power(arg, 3)
    if name == 'power32':
        return rso.power(arg, 3, 2)
    if name == 'powerv':
        return rso.power(arg, At.POWV)
    if name == 'pexp2':
        return rso.pexp(arg, 2)
    if name == 'plog2':
        return rso.plog(arg, 2)
    if name == 'pexpv':
        return rso.pexp(arg, svar)
    if name == 'norm1':
        return rso.norm(arg, 1)
    if name == 'norm2':
        return rso.norm(arg)
    if name == 'norminf':
        return rso.norm(arg, np.inf)
    if name == 'pnorm3':
        return rso.pnorm(arg, 3)
    if name == 'pnorm25':
        return rso.pnorm(arg, 2.5)
    if name == 'pnorm52':
        return rso.pnorm(arg, (5, 2))
    if name == 'pnorm3x':
        return rso.pnorm(arg, 3, 'exc')
    if name == 'sumsqr':
        return rso.sumsqr(arg)
    if name == 'quadp':
        return rso.quad(arg, At.QP)
    if name == 'quadn':
        return rso.quad(arg, -At.QP)
    if name == 'entropy':
        return rso.entropy(arg)
    if name == 'expsum':
        return rso.exp(arg).sum()
    if name == 'logsum':
        return rso.log(arg).sum()
    if name == 'fnorm':
        return rso.fnorm(arg)
    if name == 'gmean':
        return rso.gmean(arg)
    if name == 'kl':
        return rso.kldiv(arg, 0.5, 1.0)
    raise KeyError(name)


def _inner(kind, x, c=0.0):
    if kind == 'x':
        return x
    if kind == 'neg':
        return c - x          # c = smallest pinned entry + 1/8: one small positive entry, all others negative and larger
    if kind == 'lin':
        return 2 * x - 1.25
    if kind == 'pos':
        return 0.5 * x + 1
    if kind == 'rev':
        return x[::-1]
    raise KeyError(kind)


_SHAPES = {'v3': (3,), 's': (), 'm22': (2, 2)}


def _run_cvx(case):
    Bd = _rs['B']
    rso = _rs['rso']
    fe, atom, sh, inner, chain, k, when = (case[c] for c in ('fe', 'atom', 'sh', 'inner', 'chain', 'k', 'when'))
    shape = _SHAPES[sh]
    kind, _dom = At.ATOMS[atom]
    scalar_valued = kind == 'vec' or atom == 'fnorm'
    ashape = () if scalar_valued else shape
    base, _, mode = fe.partition(':')
    hx = [[1]] if mode in ('xe', 'xye') else None
    ha = ([[2], [0]] if mode == 'xye' else [[2]]) if mode in ('ye', 'xye') else None
    specs = [{'name': 'x', 'shape': shape, 'hist': hx}, {'name': 'a', 'shape': ashape, 'hist': ha},
             {'name': 's', 'shape': ()}]
    env = Bd.Env(base, specs, case['pal'], 'eq', 'min', lab='str' if base == 'dro3' else 'int', positive=True)
    fek = {'ro': 'ro', 'dro1': 'dro', 'dro3': 'dro-eventwise(%s)' % mode}[base]
    tag = 'cvx|%s|%s|%s' % (fek, atom, chain)
    x, a, s = env.vars['x'], env.vars['a'], env.vars['s']
    cneg = float(min(np.min(v) for v in env.val['x'])) + 0.125

    def build():
        f = _rs_atom(atom, _inner(inner, x, cneg), rso, s)
        return At.apply_chain(chain, k, f, s if chain == 'k*f+s' else a)
    e = None
    if when == 'pre':
        try:
            e = build()
            env.ops(3)
        except Exception as exn:  # noqa
            return {'status': 'unsupported', 'outcome': 'cvx:building raises %s' % Bd.errname(exn), 'ops': env.ops.n}
    early = _solve_env(env, 'cvx|%s' % fek)
    if early:
        return early
    if when == 'post':
        try:
            e = build()
            env.ops(3)
        except Exception as exn:  # noqa
            return {'status': 'unsupported', 'outcome': 'cvx:building raises %s' % Bd.errname(exn), 'ops': env.ops.n}
    if not callable(e):
        return {'status': 'unsupported', 'outcome': 'cvx:%s is not callable' % type(e).__name__, 'ops': env.ops.n}
    if atom in ('gmean', 'kl'):
        # no evaluation is defined: anything but a raise would be a made-up number
        try:
            v = e()
        except Exception as exn:  # noqa
            return {'status': 'unsupported', 'outcome': 'cvx:no evaluation for %s (%s)' % (atom, Bd.errname(exn)), 'ops': env.ops.n}
        return {'status': 'vacuous', 'outcome': 'cvx:%s call returned %s' % (atom, type(v).__name__), 'ops': env.ops.n}
    exps, KO = [], []
    for p in range(env.n):
        xv = _inner(inner, env.raw('x', p), cneg)
        sv = float(env.raw('s', p))
        F = At.atom_value(atom, xv, scale=sv)
        av = sv if chain == 'k*f+s' else env.raw('a', p)
        K, O = At.chain_KO(chain, k, av)
        exps.append(np.asarray(K * F + O, dtype=float))
        KO.append((K, F, O, At.alternatives(atom, xv)))
    T = Tally(tag, env.ops)
    LOOSE[0] = True

    def classify(obs):
        pd = _rs['pd']
        if isinstance(obs, pd.Series):
            kinds = {At.diagnose(obs.iloc[i], *KO[i]) for i in range(env.n)}
            return kinds.pop() if len(kinds) == 1 else 'value'
        return At.diagnose(obs, *KO[0])

    def item_cls(obs):
        return classify(obs)
    T.item('%s of %s' % (chain, atom), lambda: e(), exps, labels=env.labels, cls=item_cls)
    return T.result('cvx[%s,%s]' % (fek.split('(')[0], atom))


# ---------------------------------------------------------------- alias
def _arrays_of(v):
    """The ndarray objects inside a query result (a Series holds one per scenario)."""
    pd = _rs['pd']
    if isinstance(v, pd.Series):
        return [a for a in v if isinstance(a, np.ndarray)]
    return [v] if isinstance(v, np.ndarray) else []


def _snapshot(v):
    pd = _rs['pd']
    if isinstance(v, pd.Series):
        return [np.array(a, dtype=float, copy=True) for a in v]
    return np.array(v, dtype=float, copy=True)


def _same(a, b):
    if isinstance(a, list):
        return len(a) == len(b) and all(_same(x, y) for x, y in zip(a, b))
    return a.shape == b.shape and np.array_equal(a, b, equal_nan=True)


def _run_alias(case):
    """History: solve; run every query; mutate the array returned by query q1 in place; run every query again."""
    Bd = _rs['B']
    rso = _rs['rso']
    fe, q1, solver = case['fe'], case['q1'], case['solver']
    tag = 'alias|%s|%s' % ('dro' if fe.startswith('dro') else fe, q1)
    sol_mod = None
    if solver == 'eco':
        sol_mod = _rs.get('eco')
        if sol_mod is None:
            return {'status': 'vacuous', 'outcome': 'alias:ecos interface unavailable', 'ops': 0}
    ops = Bd.Ops()
    queries = {}
    if fe == 'roldr':
        m = _rs['ro'].Model()
        z = m.rvar(2)
        x = m.dvar((2, 3))
        y = m.ldr(3)
        s_ = m.dvar()
        y[0].adapt(z)
        y[2].adapt(z[1])
        V = Bd.pinned_values((2, 3), 0, case['pal'], False)
        a = np.array([0.5, -1.5, 2.25])
        Bm = np.array([[1.0, 2.0], [0.0, 0.0], [0.0, 4.0]])
        m.minmax(s_, z >= -1, z <= 1)
        m.st(x == V, y == a + Bm @ z, s_ >= 1.75)
        ops(10)
        closed = {'x.get()': V, 'y.get()': a, 's.get()': 1.75, 'model.get()': 1.75,
                  'coef': np.where(Bm != 0, Bm, np.nan)}
        queries['coef'] = lambda: y.get(z)
        model = m
        raw_model = m
    else:
        env = Bd.Env(fe, _std_specs(fe), case['pal'], 'eq', 'min', lab='str' if fe == 'dro3' else 'int', positive=False)
        model = env.m
        x, y, s_ = env.vars['x'], env.vars['y'], env.vars['s']
        ops = env.ops
        closed = None
    try:
        if sol_mod is None:
            model.solve(display=False)
        else:
            model.solve(sol_mod, display=False)
        ops()
    except Exception as exn:  # noqa
        return {'status': 'vacuous', 'outcome': 'alias:solve raises %s' % Bd.errname(exn), 'ops': ops.n}
    if not Bd.is_optimal(model):
        return {'status': 'vacuous', 'outcome': 'alias:not optimal', 'ops': ops.n}
    queries.update({'x.get()': lambda: x.get(), 'y.get()': lambda: y.get(), 's.get()': lambda: s_.get(),
                    'x()': lambda: x(), 'y()': lambda: y(), '(2*x-c)()': lambda: (2 * x - C23)(),
                    'x[0]()': lambda: x[0](), 'abs(y)()': lambda: abs(y)(), 'model.get()': lambda: model.get()})
    if fe == 'roldr':
        queries.pop('abs(y)()')
    solx0 = np.array(model.solution.x, dtype=float, copy=True)
    before = {}
    for nm, fn in queries.items():
        try:
            before[nm] = _snapshot(fn())
            ops()
        except Exception:  # noqa
            pass
    if q1 not in before:
        return {'status': 'unsupported', 'outcome': 'alias:%s raises' % q1, 'ops': ops.n}
    # closed forms (pinned values) as a second reference
    tol = 1e-6 if sol_mod is None else 1e-4
    if closed is None:
        exp = {'x.get()': [env.val['x'][p] for p in range(env.n)], 'y.get()': [env.val['y'][p] for p in range(env.n)],
               's.get()': [env.val['s'][p] for p in range(env.n)]}
        for nm, e in exp.items():
            if nm in before:
                f = cmp_scen(queries[nm](), e, env.labels, tol)
                if f:
                    return {'status': 'vacuous', 'outcome': 'alias:pinned optimum not reproduced (%s)' % solver, 'ops': ops.n}
    else:
        for nm, e in closed.items():
            if nm in before and cmp_plain(queries[nm](), e, tol):
                return {'status': 'vacuous', 'outcome': 'alias:pinned optimum not reproduced (%s)' % solver, 'ops': ops.n}
    ret = queries[q1]()
    arrs = _arrays_of(ret)
    raw = model.solution.x
    if any(isinstance(raw, np.ndarray) and np.shares_memory(a_, raw) for a_ in arrs):
        return _viol(tag + '|returned array shares memory with model.solution.x', 'query %s (%s interface)' % (q1, solver), ops.n)
    mutated = 0
    for a_ in arrs:
        if a_.flags.writeable and a_.size:
            a_[...] = -777.0
            mutated += 1
    if not np.array_equal(np.asarray(model.solution.x, dtype=float), solx0):
        return _viol(tag + '|model.solution.x changed by mutating the returned array', 'query %s (%s interface)' % (q1, solver),
                     ops.n)
    for nm, fn in queries.items():
        if nm not in before:
            continue
        now = _snapshot(fn())
        ops()
        if not _same(now, before[nm]):
            return _viol(tag + '|later query changed after in-place mutation of the returned array',
                         'mutated result of %s, then %s: %s (before: %s)' % (q1, nm, _short(now), _short(before[nm])), ops.n)
    return {'status': 'pass', 'outcome': 'alias:ok (%d arrays mutated)' % mutated, 'ops': ops.n, 'nontrivial': mutated > 0,
            'states': 3, 'validated': len(before)}


# ---------------------------------------------------------------- biaff
def _bi_expr(name, x, y, s, z, w, is_np):
    if name == 'x*z':
        return x * z
    if name == 'z*x':
        return z * x
    if name == 'x@z':
        return x @ z
    if name == 'bilin':
        return z @ M22 @ x + C3[:2] @ z + C3[1:] @ x + 1.5
    if name == '(x*z).sum()':
        return (x * z).sum()
    if name == 'x[0]*z':
        return x[0] * z
    if name == 'x*w':
        return x * w
    if name == 'x*z+y*w':
        return x * z + y * w
    if name == 'x*z+w':
        return x * z + w
    if name == 'z+x':
        return z + x
    if name == '(x*z)[1]':
        return (x * z)[1]
    if name == '2*(x*z)-1':
        return 2 * (x * z) - 1
    if name == 'x*z-y':
        return x * z - y
    if name == 'x*z[::-1]':
        return x * z[::-1]
    if name == 's*z':
        return s * z
    if name == 'x*w+z':
        return x * w + z
    if name == 'z@M22@x':
        return z @ M22 @ x
    raise KeyError(name)


ZV = np.array([1.5, -0.5])
WV = 2.25
ZSW = np.array([[1.0, 0.5], [-1.5, 2.0], [0.25, -1.0], [3.0, 1.0]])
WSW = np.array([0.5, -2.0, 1.75, 1.0])


def _run_biaff(case):
    Bd = _rs['B']
    pd = _rs['pd']
    fe, ex, asg = case['fe'], case['ex'], case['asg']
    if fe == 'dro3':
        specs = [{'name': 'x', 'shape': (2,), 'hist': [[1]]}, {'name': 'y', 'shape': (2,), 'hist': [[2], [0]]},
                 {'name': 's', 'shape': ()}]
    else:
        specs = [{'name': 'x', 'shape': (2,)}, {'name': 'y', 'shape': (2,)}, {'name': 's', 'shape': ()}]
    rand = [{'name': 'z', 'shape': (2,)}, {'name': 'w', 'shape': ()}]
    env = Bd.Env(fe, specs, case['pal'], 'eq', 'min', lab='str' if fe == 'dro3' else 'int', rand=rand, positive=False)
    fek = 'ro' if fe == 'ro' else ('dro' if fe == 'dro1' else 'dro-eventwise')
    tag = 'biaff|%s|%s|assign=%s' % (fek, ex, asg)
    x, y, s = env.vars['x'], env.vars['y'], env.vars['s']
    z, w = env.rand['z'], env.rand['w']
    try:
        e = _bi_expr(ex, x, y, s, z, w, False)
        env.ops()
    except Exception as exn:  # noqa
        return {'status': 'unsupported', 'outcome': 'biaff:building raises %s' % Bd.errname(exn), 'ops': env.ops.n}
    early = _solve_env(env, 'biaff|%s' % fek)
    if early:
        return early
    n = env.n
    zs = [np.zeros(2) for _ in range(n)]
    ws = [0.0 for _ in range(n)]
    try:
        args = []
        for part in ({'none': [], 'z': ['z'], 'w': ['w'], 'zw': ['z', 'w'], 'wz': ['w', 'z'], 'sw:z': ['swz'],
                      'sw:zw': ['swz', 'sww'], 'sw:series': ['swzs']}[asg]):
            if part == 'z':
                args.append(z.assign(ZV))
                zs = [ZV.copy() for _ in range(n)]
            elif part == 'w':
                args.append(w.assign(WV))
                ws = [WV for _ in range(n)]
            elif part == 'swz':
                args.append(z.assign(ZSW[:n], sw=True))
                zs = [ZSW[i].copy() for i in range(n)]
            elif part == 'sww':
                args.append(w.assign(WSW[:n], sw=True))
                ws = [float(WSW[i]) for i in range(n)]
            elif part == 'swzs':
                args.append(z.assign(pd.Series([ZSW[i] for i in range(n)], index=env.labels), sw=True))
                zs = [ZSW[i].copy() for i in range(n)]
            env.ops()
    except Exception as exn:  # noqa
        return {'status': 'unsupported', 'outcome': 'biaff:assign(%s) raises %s' % (asg.split(':')[0], Bd.errname(exn)),
                'ops': env.ops.n}
    exps = [np.asarray(_bi_expr(ex, env.raw('x', p), env.raw('y', p), env.raw('s', p), zs[p], ws[p], True), dtype=float)
            for p in range(n)]
    T = Tally(tag, env.ops)
    T.item('(%s)(%s)' % (ex, asg), lambda: e(*args), exps, labels=env.labels)
    return T.result('biaff')


# ---------------------------------------------------------------- ldr (ro)
def _run_ldr(case):
    Bd = _rs['B']
    ro = _rs['ro']
    rl, nrows, q, pin = case['rl'], case['rows'], case['q'], case['pin']
    mask = np.array(case['mask'])
    d = mask.shape[1]
    ops = Bd.Ops()
    m = ro.Model()
    pre = m.dvar(2)
    rvars = Bd.make_rvars(m, rl)
    y = m.ldr() if nrows == 1 else m.ldr(nrows)
    tau = m.dvar() if nrows == 1 else m.dvar(nrows)
    x0 = m.dvar() if nrows == 1 else m.dvar(nrows)
    ops(5 + len(rvars))
    try:
        for i in range(nrows):
            cols = [j for j in range(d) if mask[i, j]]
            if cols:
                ops(Bd.declare_rect(y, [i], cols, rvars, nrows))
    except Exception as exn:  # noqa
        return {'status': 'vacuous', 'outcome': 'ldr:declaration raises %s' % Bd.errname(exn), 'ops': ops.n}
    pal = case['pal']
    B = np.array([[1.0, 2.0, 4.0], [8.0, 16.0, 32.0]])[:nrows, :d] * (1.0 if pal % 2 == 0 else -0.5)
    if pal % 4 >= 2:
        B = B[::-1, ::-1].copy()
    a = np.array([0.5, -1.5])[:nrows] + pal
    X0 = np.array([3.0, 7.0])[:nrows]
    Bm = B * mask
    box = Bd.box_constraints(rvars)
    yshape = () if nrows == 1 else (nrows,)

    def target(Bmat):
        if nrows == 1:
            t = a[0]
            for rv, comps in rvars:
                t = t + (Bmat[0, comps[0]] * rv if rv.shape == () else Bmat[0, comps] @ rv)
            return t
        return a + Bd.rand_expr(rvars, Bmat)
    tag = 'ldr|%s' % q
    try:
        if pin == 'tau':
            t = target(B)
            m.minmax(tau.sum() if nrows > 1 else tau, box)
            m.st(tau >= y - t, tau >= t - y)
            want_obj = float(np.abs(B[mask == 0]).sum())
        else:
            t = target(Bm)
            m.minmax(tau.sum() if nrows > 1 else tau, box)
            m.st(y == t, tau >= 1.25)
            want_obj = 1.25 * nrows
        m.st(pre == np.array([1.0, 2.0]), x0 == (X0 if nrows > 1 else X0[0]))
        ops(6)
        m.solve(display=False)
        ops()
    except Exception as exn:  # noqa
        return {'status': 'vacuous', 'outcome': 'ldr:model raises %s' % Bd.errname(exn), 'ops': ops.n, 'detail': str(exn)[:200]}
    if not Bd.is_optimal(m):
        return {'status': 'vacuous', 'outcome': 'ldr:not optimal', 'ops': ops.n}
    sol = np.asarray(m.solution.x, dtype=float)
    # reference index arithmetic: epigraph, pre(2), y.fixed(nrows), tau(nrows), x0(nrows), then one coefficient per
    # declared cell in row-major order
    f0 = 1 + 2
    c0 = f0 + 3 * nrows
    raw_a = sol[f0:f0 + nrows]
    ncell = int(mask.sum())
    raw_c = sol[c0:c0 + ncell]
    if not np.allclose(raw_a, a, rtol=0, atol=1e-6 * 40) or not np.allclose(raw_c, B[mask == 1], rtol=0, atol=1e-6 * 40):
        return _viol('ldr|raw solver vector does not hold the pinned optimum at the reference positions',
                     'mask %s: constants %s (expected %s), coefficients %s (expected %s)' %
                     (mask.tolist(), raw_a.tolist(), a.tolist(), raw_c.tolist(), B[mask == 1].tolist()), ops.n)
    coef_raw = np.full((nrows, d), np.nan)
    coef_raw[mask == 1] = raw_c
    T = Tally(tag, ops)
    none_declared = ncell == 0
    v1 = np.array([0.5, -0.25, 0.75])[:d]
    v0 = np.zeros(d)

    def val(v, rows=None):
        out = raw_a + np.nan_to_num(coef_raw) @ v
        return out if nrows > 1 else out[0]
    if q == 'raw':
        T.item('model.get()', lambda: m.get(), want_obj, tol=1e-6)
    elif q == 'get':
        T.item('y.get()', lambda: y.get(), raw_a.reshape(yshape))
    elif q in ('coef', 'coef.slice'):
        for rv, comps in rvars:
            full = coef_raw[:, comps]
            if q == 'coef':
                T.item('y.get(rv%s)' % comps, lambda: y.get(rv), full.reshape(yshape + tuple(rv.shape)))
            elif rv.shape != ():
                for ix in ('0', '-1', 'slice(1,None)', 'slice(None,None,-1)', '[1,0]'):
                    idx = eval(ix, _NS)
                    try:
                        sel = np.arange(len(comps))[idx]
                    except Exception:  # noqa
                        continue
                    want = full[:, sel]
                    T.item('y.get(rv[%s])' % ix, lambda: y.get(rv[idx]), want.reshape(yshape + np.shape(sel)))
    elif q == 'call':
        if none_declared:
            T.item('y()', lambda: y(), val(v0))
        else:
            T.item('y()', lambda: y(), val(v0))
            T.item('y(all)', lambda: y(*Bd.assign_all(rvars, v1)), val(v1))
            T.item('y(all reversed order)', lambda: y(*Bd.assign_all(rvars, v1)[::-1]), val(v1))
            vp = v1.copy()
            vp[[c for rv, comps in rvars[1:] for c in comps]] = 0.0
            T.item('y(first only)', lambda: y(*Bd.assign_all(rvars, v1)[:1]), val(vp))
    elif q == 'subcall':
        if nrows == 1:
            return {'status': 'vacuous', 'outcome': 'ldr:no sub-rule of a scalar rule', 'ops': ops.n}
        args = (lambda: Bd.assign_all(rvars, v1)) if not none_declared else (lambda: [])
        vv = val(v1) if not none_declared else val(v0)
        T.item('y[0](..)', lambda: y[0](*args()), vv[0])
        T.item('y[1](..)', lambda: y[1](*args()), vv[1])
        T.item('y[::-1](..)', lambda: y[::-1](*args()), vv[::-1])
        T.item('y[[1]](..)', lambda: y[[1]](*args()), vv[[1]])
    elif q == 'affcall':
        args = (lambda: Bd.assign_all(rvars, v1)) if not none_declared else (lambda: [])
        vv = val(v1) if not none_declared else val(v0)
        T.item('(2*y+1)(..)', lambda: (2 * y + 1)(*args()), 2 * vv + 1)
        T.item('(y+x0)(..)', lambda: (y + x0)(*args()), vv + (X0 if nrows > 1 else X0[0]))
        T.item('(-y)(..)', lambda: (-y)(*args()), -vv)
        if nrows > 1:
            T.item('(M22@y)(..)', lambda: (M22 @ y)(*args()), M22 @ vv)
            T.item('(y.sum())(..)', lambda: (y.sum())(*args()), vv.sum())
            T.item('(y*c)(..)', lambda: (y * C3[:2])(*args()), vv * C3[:2])
    return T.result('ldr:' + q)


# ---------------------------------------------------------------- evt (dro event-wise static decisions)
def _run_evt(case):
    Bd = _rs['B']
    rso = _rs['rso']
    n, lab, hist, pin, q = case['n'], case['lab'], case['hist'], case['pin'], case['q']
    h0 = [[n - 1]] if n >= 2 else []
    specs = [{'name': 'w0', 'shape': (2,), 'hist': h0, 'ind': True}, {'name': 'x', 'shape': (2,), 'hist': hist, 'ind': True},
             {'name': 'q0', 'shape': ()}]
    if q == 'stack.call':
        specs.append({'name': 'sv', 'shape': (2,)})          # a static (here-and-now) vector to stack with
    rand = [{'name': 'z', 'shape': (2,)}] if q == 'biaff.call' else None
    objform = 'E' if (pin == 'obj' or q == 'objective') else 'wc'
    env = Bd.Env('dro%d' % n, specs, case['pal'], pin, case.get('sense', 'min'), lab=lab, rand=rand, positive=True,
                 objform=objform)
    tag = 'evt|%s' % q
    early = _solve_env(env, 'evt')
    if early:
        return early
    m = env.m
    x, w0, q0 = env.vars['x'], env.vars['w0'], env.vars['q0']
    rx = [env.raw('x', p) for p in range(n)]
    rw = [env.raw('w0', p) for p in range(n)]
    rq = float(env.raw('q0', 0))
    L = env.labels
    T = Tally(tag, env.ops)
    if q == 'objective':
        T.tag = 'evt|objective|%s' % case.get('sense', 'min')
        T.item('model.get()', lambda: m.get(), env.expected_objective(), tol=1e-6)
    elif q == 'get':
        T.item('x.get()', lambda: x.get(), rx, labels=L)
        T.item('w0.get()', lambda: w0.get(), rw, labels=L)
        T.item('q0.get()', lambda: q0.get(), rq)
    elif q == 'sub.get':
        T.item('x[1].get()', lambda: x[1].get(), [r[1] for r in rx], labels=L)
    elif q == 'call':
        T.item('x()', lambda: x(), rx, labels=L)
        T.item('w0()', lambda: w0(), rw, labels=L)
        T.item('q0()', lambda: q0(), rq)
    elif q == 'slice.call':
        T.item('x[1]()', lambda: x[1](), [r[1] for r in rx], labels=L)
        T.item('x[::-1]()', lambda: x[::-1](), [r[::-1] for r in rx], labels=L)
        T.item('x[[0]]()', lambda: x[[0]](), [r[[0]] for r in rx], labels=L)
    elif q == 'aff.call':
        T.item('(M22@x+c)()', lambda: (M22 @ x + C3[:2])(), [M22 @ r + C3[:2] for r in rx], labels=L)
        T.item('x.sum()()', lambda: x.sum()(), [r.sum() for r in rx], labels=L)
        T.item('(2*x-q0)()', lambda: (2 * x - q0)(), [2 * r - rq for r in rx], labels=L)
    elif q == 'mix.call':
        T.item('(x+2*w0)()', lambda: (x + 2 * w0)(), [a + 2 * b for a, b in zip(rx, rw)], labels=L)
        T.item('(w0-x)()', lambda: (w0 - x)(), [b - a for a, b in zip(rx, rw)], labels=L)
        T.item('(x[0]+w0[1]+q0)()', lambda: (x[0] + w0[1] + q0)(), [a[0] + b[1] + rq for a, b in zip(rx, rw)], labels=L)
    elif q == 'mixcvx.call':
        T.tag = 'evt|mixcvx.call|argument %s, offset %s' % ('static' if len(env.part['x']) == 1 else 'event-wise',
                                                             'static' if len(env.part['w0']) == 1 else 'event-wise')
        T.item('(abs(x)+w0)()', lambda: (abs(x) + w0)(), [np.abs(a) + b for a, b in zip(rx, rw)], labels=L)
        T.item('(norm(w0)+x[0])()', lambda: (rso.norm(w0) + x[0])(), [np.sqrt((b ** 2).sum()) + a[0] for a, b in zip(rx, rw)],
               labels=L)
    elif q == 'cvx.call':
        T.item('abs(x-c)()', lambda: abs(x - 4.0)(), [np.abs(r - 4.0) for r in rx], labels=L)
        T.item('(2*norm(x)+1)()', lambda: (2 * rso.norm(x) + 1)(), [2 * np.sqrt((r ** 2).sum()) + 1 for r in rx], labels=L)
        T.item('(-sumsqr(x)+q0)()', lambda: (-rso.sumsqr(x) + q0)(), [-(r ** 2).sum() + rq for r in rx], labels=L)
        T.item('exp(x/8)()', lambda: rso.exp(x * 0.125)(), [np.exp(r / 8) for r in rx], labels=L)
    elif q == 'stack.call':
        sv = env.vars['sv']
        rs_ = env.raw('sv', 0)
        cc = np.array([5.0, 6.0])
        cat = np.concatenate
        for nm, ev, rv_ in (('x', x, rx), ('w0', w0, rw)):
            # static first / event-wise first / constant first, for every stacking function and the multi-array atoms
            T.item('concat((sv,%s))()' % nm, lambda: rso.concat((sv, ev))(), [cat([rs_, r]) for r in rv_], labels=L)
            T.item('concat((%s,sv))()' % nm, lambda: rso.concat((ev, sv))(), [cat([r, rs_]) for r in rv_], labels=L)
            T.item('concat((c,%s))()' % nm, lambda: rso.concat((cc, ev))(), [cat([cc, r]) for r in rv_], labels=L)
            T.item('concat((%s,c))()' % nm, lambda: rso.concat((ev, cc))(), [cat([r, cc]) for r in rv_], labels=L)
            T.item('concat((q0v,%s,sv))()' % nm, lambda: rso.concat((q0 * np.ones(1), ev, sv))(),
                   [cat([[rq], r, rs_]) for r in rv_], labels=L)
            T.item('rstack(sv,%s)()' % nm, lambda: rso.rstack(sv.reshape((1, 2)), ev.reshape((1, 2)))(),
                   [np.vstack([rs_, r]) for r in rv_], labels=L)
            T.item('rstack(%s,sv)()' % nm, lambda: rso.rstack(ev.reshape((1, 2)), sv.reshape((1, 2)))(),
                   [np.vstack([r, rs_]) for r in rv_], labels=L)
            T.item('cstack(sv,%s)()' % nm, lambda: rso.cstack(sv.reshape((2, 1)), ev.reshape((2, 1)))(),
                   [np.column_stack([rs_, r]) for r in rv_], labels=L)
            T.item('cstack(%s,sv)()' % nm, lambda: rso.cstack(ev.reshape((2, 1)), sv.reshape((2, 1)))(),
                   [np.column_stack([r, rs_]) for r in rv_], labels=L)
            T.item('vec(q0,%s[1])()' % nm, lambda: rso.vec(q0, ev[1])(), [np.array([rq, r[1]]) for r in rv_], labels=L)
            T.item('vec(%s[1],q0)()' % nm, lambda: rso.vec(ev[1], q0)(), [np.array([r[1], rq]) for r in rv_], labels=L)
            T.item('vec(1.5,%s[0])()' % nm, lambda: rso.vec(1.5, ev[0])(), [np.array([1.5, r[0]]) for r in rv_], labels=L)
            T.item('sumsqr(sv,%s)()' % nm, lambda: rso.sumsqr(sv, ev)(), [(rs_ ** 2).sum() + (r ** 2).sum() for r in rv_], labels=L)
            T.item('sumsqr(%s,sv)()' % nm, lambda: rso.sumsqr(ev, sv)(), [(rs_ ** 2).sum() + (r ** 2).sum() for r in rv_], labels=L)
            T.item('fnorm(sv,%s)()' % nm, lambda: rso.fnorm(sv, ev)(),
                   [np.sqrt((rs_ ** 2).sum() + (r ** 2).sum()) for r in rv_], labels=L)
            T.item('fnorm(%s,sv)()' % nm, lambda: rso.fnorm(ev, sv)(),
                   [np.sqrt((rs_ ** 2).sum() + (r ** 2).sum()) for r in rv_], labels=L)
            T.item('norm(concat((sv,%s)))()' % nm, lambda: rso.norm(rso.concat((sv, ev)))(),
                   [np.sqrt((rs_ ** 2).sum() + (r ** 2).sum()) for r in rv_], labels=L)
        T.item('concat((x,w0))()', lambda: rso.concat((x, w0))(), [cat([a_, b_]) for a_, b_ in zip(rx, rw)], labels=L)
        T.item('concat((w0,x))()', lambda: rso.concat((w0, x))(), [cat([b_, a_]) for a_, b_ in zip(rx, rw)], labels=L)
    elif q == 'biaff.call':
        z = env.rand['z']
        T.item('(x*z)(z)', lambda: (x * z)(z.assign(ZV)), [r * ZV for r in rx], labels=L)
        T.item('(x*z+w0)(z)', lambda: (x * z + w0)(z.assign(ZV)), [a * ZV + b for a, b in zip(rx, rw)], labels=L)
        T.item('(x@z)()', lambda: (x @ z)(), [0.0 * r.sum() for r in rx], labels=L)
        T.item('(x*z)(sw)', lambda: (x * z)(z.assign(ZSW[:n], sw=True)), [rx[p] * ZSW[p] for p in range(n)], labels=L)
    res = T.result('evt:' + q)
    if res['status'] == 'violation' and q != 'mixcvx.call':
        # make the signature say whether the event list is in scenario order (the reference order)
        order = P.reference_event_order(hist, n)
        firsts = [min(b) for b in order]
        inorder = firsts == sorted(firsts) and all(b == sorted(b) for b in order)
        contiguous = all(b == list(range(b[0], b[-1] + 1)) for b in (sorted(bb) for bb in order))
        cls = 'events listed in scenario order' if inorder and contiguous else 'events not listed in scenario order'
        if len(order) == 1:
            cls = 'single event'
        parts = res['sig'].split('|')
        res['sig'] = '|'.join(parts[:2] + [cls] + parts[2:])
    return res


# ---------------------------------------------------------------- dadapt (dro affinely adaptive, event-wise)
def _run_dadapt(case):
    Bd = _rs['B']
    dro = _rs['dro']
    n, lab, hist, q = case['n'], case['lab'], case['hist'], case['q']
    mask = np.array(case['mask'])
    labels = P.labels_for(lab, n)
    ops = Bd.Ops()
    m = Bd.dro_model(lab, n, labels)
    pre = m.dvar(2)
    x = m.dvar(2)
    q0 = m.dvar()
    z = m.rvar(2)
    w = m.rvar(2)
    u = m.rvar()
    fset = m.ambiguity()
    ops(8)
    if n >= 2:
        pre.adapt(labels[0])
        ops()
    for blk in hist:
        x.adapt([labels[i] for i in blk])
        ops()
    for i in range(2):
        cols = [j for j in range(2) if mask[i, j]]
        if cols:
            x[i].adapt(z if len(cols) == 2 else z[cols[0]])
            ops()
    part = P.declared_partition(hist, n)
    blocks = sorted(part, key=min)
    tau, sig = {}, {}
    for bi, b in enumerate(blocks):
        for s in b:
            tau[s] = 2.0 + bi
            sig[s] = 1.0 + 2.0 * bi
    pal = case['pal']
    a = np.array([0.5, -1.5]) + pal
    B = np.array([[1.0, 2.0], [3.0, 4.0]]) * (1.0 if pal % 2 == 0 else -1.0) * mask
    D = np.array([[0.5, 0.25], [0.125, 0.0625]]) * mask
    c = np.array([1.0, 2.0])
    for s in range(n):
        fset.iloc[s].suppset(z >= -1, z <= 1, w == tau[s] * z, u == sig[s])
        ops()
    tag = 'dadapt|%s' % q
    try:
        m.max(q0)
        m.st(q0 <= 3, pre == np.array([1.0, 2.0]))
        m.st((x == a + B @ z + D @ w + c * u).forall(fset))
        ops(4)
        m.solve(display=False)
        ops()
    except Exception as exn:  # noqa
        return {'status': 'vacuous', 'outcome': 'dadapt:model raises %s' % Bd.errname(exn), 'ops': ops.n, 'detail': str(exn)[:200]}
    if not Bd.is_optimal(m):
        return {'status': 'vacuous', 'outcome': 'dadapt:not optimal', 'ops': ops.n}
    consts = [a + c * sig[s] for s in range(n)]
    coefs = [np.where(mask == 1, B + tau[s] * D, np.nan) for s in range(n)]
    # reference index arithmetic for the raw vector
    sol = np.asarray(m.solution.x, dtype=float)
    order_x = P.reference_event_order(hist, n)
    order_p = P.reference_event_order([[0]] if n >= 2 else [], n)
    off_x = 1 + 1 + 2 * len(order_p)
    nconst = 1 + 2 * len(order_p) + 2 * len(order_x) + 1
    ncell = int(mask.sum())
    lin0 = 1 + nconst
    for s in range(n):
        e = [i for i, b in enumerate(order_x) if s in b][0]
        rc = sol[off_x + 2 * e: off_x + 2 * e + 2]
        rl = sol[lin0 + ncell * e: lin0 + ncell * (e + 1)]
        if not np.allclose(rc, consts[s], rtol=0, atol=1e-5) or not np.allclose(rl, coefs[s][mask == 1], rtol=0, atol=1e-5):
            return _viol('dadapt|raw solver vector does not hold the pinned optimum at the reference positions',
                         'history %s mask %s scenario %d: constants %s (expected %s) coefficients %s (expected %s)' %
                         (P.fmt_hist(hist), mask.tolist(), s, rc.tolist(), consts[s].tolist(), rl.tolist(),
                          coefs[s][mask == 1].tolist()), ops.n)
        consts[s] = rc.copy()
        cf = np.full((2, 2), np.nan)
        cf[mask == 1] = rl
        coefs[s] = cf
    T = Tally(tag, ops)
    L = labels
    none_declared = ncell == 0
    v1 = np.array([0.5, -0.75])

    def val(s, v):
        return consts[s] + np.nan_to_num(coefs[s]) @ v
    if q == 'get':
        T.item('x.get()', lambda: x.get(), consts, labels=L)
        T.item('q0.get()', lambda: q0.get(), 3.0, tol=1e-6)
        T.item('model.get()', lambda: m.get(), 3.0, tol=1e-6)
    elif q == 'coef':
        T.item('x.get(z)', lambda: x.get(z), coefs, labels=L)
        T.item('x.get(w)', lambda: x.get(w), [np.full((2, 2), np.nan) for _ in range(n)], labels=L)
        T.item('x.get(u)', lambda: x.get(u), [np.full((2,), np.nan) for _ in range(n)], labels=L)
    elif q == 'coef.slice':
        T.item('x.get(z[1])', lambda: x.get(z[1]), [cf[:, 1] for cf in coefs], labels=L)
        T.item('x.get(z[::-1])', lambda: x.get(z[::-1]), [cf[:, ::-1] for cf in coefs], labels=L)
    elif q == 'call':
        T.item('x()', lambda: x(), [val(s, np.zeros(2)) for s in range(n)], labels=L)
        if not none_declared:
            T.item('x(z)', lambda: x(z.assign(v1)), [val(s, v1) for s in range(n)], labels=L)
            T.item('x(z,w,u)', lambda: x(z.assign(v1), w.assign(np.array([9.0, 9.0])), u.assign(7.0)),
                   [val(s, v1) for s in range(n)], labels=L)
    elif q == 'call.partial':
        if not none_declared:
            T.item('x[1](z)', lambda: x[1](z.assign(v1)), [val(s, v1)[1] for s in range(n)], labels=L)
            T.item('x[::-1](z)', lambda: x[::-1](z.assign(v1)), [val(s, v1)[::-1] for s in range(n)], labels=L)
        else:
            T.item('x[1]()', lambda: x[1](), [val(s, np.zeros(2))[1] for s in range(n)], labels=L)
    elif q == 'call.sw':
        if not none_declared:
            T.item('x(z sw)', lambda: x(z.assign(ZSW[:n], sw=True)), [val(s, ZSW[s]) for s in range(n)], labels=L)
    elif q == 'aff.call':
        if not none_declared:
            T.item('(M22@x+1)(z)', lambda: (M22 @ x + 1)(z.assign(v1)), [M22 @ val(s, v1) + 1 for s in range(n)], labels=L)
            T.item('(x+pre)(z)', lambda: (x + pre)(z.assign(v1)), [val(s, v1) + np.array([1.0, 2.0]) for s in range(n)], labels=L)
        else:
            T.item('(M22@x+1)()', lambda: (M22 @ x + 1)(), [M22 @ val(s, np.zeros(2)) + 1 for s in range(n)], labels=L)
    elif q == 'biaff.call':
        rq0 = float(sol[nconst])
        pvs = []
        for s in range(n):
            e = [i for i, b in enumerate(order_p) if s in b][0]
            pvs.append(sol[2 + 2 * e: 4 + 2 * e].copy())
        T.item('(pre*z)(z)', lambda: (pre * z)(z.assign(v1)), [pvs[s] * v1 for s in range(n)], labels=L)
        if not none_declared:
            T.tag = 'dadapt|biaff.call(adaptive decision inside)'
            T.item('(q0*z+x)(z)', lambda: (q0 * z + x)(z.assign(v1)), [rq0 * v1 + val(s, v1) for s in range(n)], labels=L)
            T.item('(x+pre*z)(z)', lambda: (x + pre * z)(z.assign(v1)), [pvs[s] * v1 + val(s, v1) for s in range(n)], labels=L)
    res = T.result('dadapt:' + q)
    if res['status'] == 'violation':
        firsts = [min(b) for b in order_x]
        inorder = firsts == sorted(firsts) and all(sorted(b) == list(range(min(b), max(b) + 1)) for b in order_x)
        cls = 'events listed in scenario order' if inorder else 'events not listed in scenario order'
        if len(order_x) == 1:
            cls = 'single event'
        parts = res['sig'].split('|')
        res['sig'] = '|'.join(parts[:2] + [cls] + parts[2:])
    return res


# ---------------------------------------------------------------- margs (calls with several realisation arguments)
MARG_COMMON = {'z': np.array([1.5, -0.5]), 'w': np.array([0.75, -2.0, 1.25]), 'u': 2.25}
MARG_BCAST = {'z': 0.75, 'w': -1.25, 'u': 0.5}
MARG_SW = {'z': ZSW, 'w': np.array([[0.5, 1.0, -1.5], [2.0, -0.25, 0.75], [-1.0, 1.5, 0.25], [1.25, -0.75, 2.5]]), 'u': WSW}
MARG_SHAPE = {'z': (2,), 'w': (3,), 'u': ()}
MARG_COLS = {'z': [0, 1], 'w': [2, 3, 4], 'u': [5]}
MARG_PART = {'z': [1], 'w': [3, 4], 'u': [5]}          # the components selected by dependency code 2 (z[1], w[1:], u)
MARG_C = np.array([[1.0, 2.0, 0.5, -0.25, 2.5, -3.0], [3.0, 4.0, -1.5, 0.75, 1.25, 6.0]])
MARG_D = np.array([[0.5, 0.25], [0.125, 0.0625]])


def _marg_expr(name, x, pre, q0, z, w, u):
    if name == 'x':
        return x
    if name == 'x[1]':
        return x[1]
    if name == 'x[::-1]':
        return x[::-1]
    if name == 'M22@x+1':
        return M22 @ x + 1
    if name == '3*x[0]-2*x[1]+1.5':
        return 3 * x[0] - 2 * x[1] + 1.5
    if name == 'x.sum()':
        return x.sum()
    if name == 'x+pre':
        return x + pre
    if name == 'q0*z+x':
        return q0 * z + x
    if name == '(pre*z).sum()+x[0]':
        return (pre * z).sum() + x[0]
    if name == 'pre*z':
        return pre * z
    if name == 'u*pre+x':
        return u * pre + x
    if name == 'pre[0]*w[:2]+x':
        return pre[0] * w[:2] + x
    if name == 'x[0]+pre@z':
        return x[0] + pre @ z
    raise KeyError(name)


def marg_patterns(kinds, group, all_orders=True):
    """All argument lists [(rvar name, kind), ...] of one group: every assignment of a kind in `kinds` ('-' absent,
    'c' common array, 'b' common scalar broadcast, 's' scenario-wise) to (z, w, u) whose class is `group`
    ('common': no scenario-wise argument, the empty call included; 'sw': only scenario-wise ones; 'mixed': both),
    in every argument order (all_orders) or in the declaration order and its reverse."""
    out = []
    for ks in itertools.product(kinds, repeat=3):
        present = [(nm, k) for nm, k in zip('zwu', ks) if k != '-']
        has_s = any(k == 's' for _, k in present)
        has_c = any(k in 'cb' for _, k in present)
        g = 'mixed' if (has_s and has_c) else ('sw' if has_s else 'common')
        if g != group:
            continue
        if all_orders:
            orders = list(itertools.permutations(present))
        else:
            orders = [tuple(present)] + ([tuple(present[::-1])] if len(present) > 1 else [])
        for o in orders:
            out.append(list(o))
    return out


def marg_values(pattern, n):
    """Reference realisations: per scenario position the values of (z, w, u) that an argument list denotes
    (zero where a random variable is not mentioned)."""
    vals = [{'z': np.zeros(2), 'w': np.zeros(3), 'u': 0.0} for _ in range(n)]
    for nm, k in pattern:
        for s in range(n):
            if k == 'c':
                v = MARG_COMMON[nm]
            elif k == 'b':
                v = MARG_BCAST[nm] + np.zeros(MARG_SHAPE[nm])
            else:
                v = MARG_SW[nm][s]
            vals[s][nm] = np.array(v, dtype=float) if nm != 'u' else float(v)
    return vals


def _marg_args(pattern, rv, n):
    args = []
    for nm, k in pattern:
        if k == 'c':
            args.append(rv[nm].assign(MARG_COMMON[nm] if nm != 'u' else float(MARG_COMMON[nm])))
        elif k == 'b':
            args.append(rv[nm].assign(MARG_BCAST[nm]))
        else:
            args.append(rv[nm].assign(np.array(MARG_SW[nm][:n], dtype=float), sw=True))
    return args


def _marg_mask(dep):
    mask = np.zeros((2, 6), dtype=int)
    for i in range(2):
        for j, nm in enumerate('zwu'):
            if dep[i][j] == 1:
                mask[i, MARG_COLS[nm]] = 1
            elif dep[i][j] == 2:
                mask[i, MARG_PART[nm]] = 1
    return mask


def _marg_declare(x, dep, rv, ops):
    """One adapt call per (random variable, dependency code) in the order z, w, u."""
    part = {'z': lambda r: r[1], 'w': lambda r: r[1:], 'u': lambda r: r}
    for j, nm in enumerate('zwu'):
        for code in (1, 2):
            rows = [i for i in range(2) if dep[i][j] == code]
            if not rows:
                continue
            target = rv[nm] if code == 1 else part[nm](rv[nm])
            (x if len(rows) == 2 else x[rows[0]]).adapt(target)
            ops()


def _run_margs(case):
    Bd = _rs['B']
    fe, n, lab, hist, dep, grp, kinds = (case[k] for k in ('fe', 'n', 'lab', 'hist', 'dep', 'grp', 'kinds'))
    is_ro = fe == 'ro'
    labels = P.labels_for(lab, n)
    ops = Bd.Ops()
    pal = case['pal']
    mask = _marg_mask(dep)
    ncell = int(mask.sum())
    a = np.array([0.5, -1.5]) + pal
    C = MARG_C * (1.0 if pal % 2 == 0 else -1.0) * mask
    if pal % 4 >= 2:
        C = (MARG_C[::-1] * 0.5) * mask
    D = MARG_D * mask[:, :2]
    c = np.array([1.0, 2.0])
    part = P.declared_partition(hist, n)
    blocks = sorted(part, key=min)
    tau, sig = {}, {}
    for bi, b in enumerate(blocks):
        for s in b:
            tau[s] = 2.0 + bi
            sig[s] = 1.0 + 2.0 * bi
    sigp = {s: (2.0 if s == 0 else 1.0) for s in range(n)}
    try:
        if is_ro:
            m = _rs['ro'].Model()
            pre = m.dvar(2)
            x = m.ldr(2)
            q0 = m.dvar()
            rv = {'z': m.rvar(2), 'w': m.rvar(3), 'u': m.rvar()}
            ops(7)
            _marg_declare(x, dep, rv, ops)
            z, w, u = rv['z'], rv['w'], rv['u']
            m.maxmin(q0, z >= -1, z <= 1, w >= -1, w <= 1, u >= -1, u <= 1)
            m.st(q0 <= 3, pre == np.array([1.0, 2.0]) * sigp[0])
            m.st(x == a + c * sig[0] + C[:, :2] @ z + C[:, 2:5] @ w + C[:, 5] * u)
            ops(4)
        else:
            m = Bd.dro_model(lab, n, labels)
            pre = m.dvar(2)
            x = m.dvar(2)
            q0 = m.dvar()
            z = m.rvar(2)
            ind = m.rvar()
            w = m.rvar(3)
            u = m.rvar()
            h = m.rvar(2)
            indp = m.rvar()
            rv = {'z': z, 'w': w, 'u': u}
            fset = m.ambiguity()
            ops(11)
            if n >= 2:
                pre.adapt(labels[0])
                ops()
            for blk in hist:
                x.adapt([labels[i] for i in blk])
                ops()
            _marg_declare(x, dep, rv, ops)
            for s in range(n):
                fset.iloc[s].suppset(z >= -1, z <= 1, w >= -1, w <= 1, u >= -1, u <= 1, h == tau[s] * z, ind == sig[s],
                                     indp == sigp[s])
                ops()
            m.max(q0)
            m.st(q0 <= 3, (pre == np.array([1.0, 2.0]) * indp).forall(fset))
            m.st((x == a + C[:, :2] @ z + C[:, 2:5] @ w + C[:, 5] * u + D @ h + c * ind).forall(fset))
            ops(4)
        m.solve(display=False)
        ops()
    except Exception as exn:  # noqa
        return {'status': 'vacuous', 'outcome': 'margs:model raises %s' % Bd.errname(exn), 'ops': ops.n, 'detail': str(exn)[:200]}
    if not Bd.is_optimal(m):
        return {'status': 'vacuous', 'outcome': 'margs:not optimal', 'ops': ops.n}
    consts = [a + c * sig[s] for s in range(n)]
    coefs = [C + np.hstack([tau[s] * D, np.zeros((2, 4))]) if not is_ro else C.copy() for s in range(n)]
    pvs = [np.array([1.0, 2.0]) * sigp[s] for s in range(n)]
    # reference index arithmetic for the raw vector: epigraph (+ internal objective decision in dro), the constants of
    # pre, x (one block per event, remainder first, then the declared blocks in call order), q0, then per event one
    # coefficient per declared cell in row-major order of (rule row, random component)
    sol = np.asarray(m.solution.x, dtype=float)
    order_x = P.reference_event_order(hist, n) if not is_ro else [[0]]
    order_p = P.reference_event_order([[0]] if n >= 2 else [], n) if not is_ro else [[0]]
    off_p = 1 if is_ro else 2
    off_x = off_p + 2 * len(order_p)
    iq0 = off_x + 2 * len(order_x)
    lin0 = iq0 + 1
    rq0 = float(sol[iq0]) if sol.size > iq0 else np.nan
    bad = None
    if sol.size < lin0 + ncell * len(order_x) or abs(rq0 - 3.0) > 1e-6:
        bad = 'vector of length %d, q0 read as %s' % (sol.size, rq0)
    else:
        for s in range(n):
            e = [i for i, b in enumerate(order_x) if s in b][0]
            ep = [i for i, b in enumerate(order_p) if s in b][0]
            rc = sol[off_x + 2 * e: off_x + 2 * e + 2]
            rl = sol[lin0 + ncell * e: lin0 + ncell * (e + 1)]
            rp = sol[off_p + 2 * ep: off_p + 2 * ep + 2]
            if not np.allclose(rc, consts[s], rtol=0, atol=1e-5) or not np.allclose(rl, coefs[s][mask == 1], rtol=0, atol=1e-5) \
                    or not np.allclose(rp, pvs[s], rtol=0, atol=1e-5):
                bad = 'history %s dependency %s scenario %d: constants %s (expected %s) coefficients %s (expected %s) pre %s ' \
                      '(expected %s)' % (P.fmt_hist(hist), dep, s, rc.tolist(), consts[s].tolist(), rl.tolist(),
                                         coefs[s][mask == 1].tolist(), rp.tolist(), pvs[s].tolist())
                break
            consts[s] = rc.copy()
            cf = np.zeros((2, 6))
            cf[mask == 1] = rl
            coefs[s] = cf
            pvs[s] = rp.copy()
    if bad:
        return _viol('margs|%s|raw solver vector does not hold the pinned optimum at the reference positions' % fe, bad, ops.n)
    # ---- the expressions (built after the solve)
    exprs = {}
    built_err = {}
    for nm in MARG_EXPRS:
        try:
            exprs[nm] = _marg_expr(nm, x, pre, q0, rv['z'], rv['w'], rv['u'])
            ops()
        except Exception as exn:  # noqa
            built_err[nm] = Bd.errname(exn)
    T = Tally('margs|%s|%s' % (fe, grp), ops)
    L = labels if not is_ro else None
    pats_all = marg_patterns(kinds, grp, True)
    pats_two = marg_patterns(kinds, grp, False)
    where = None
    for pat in pats_all:
        try:
            args = _marg_args(pat, rv, n)
            ops(len(pat))
        except Exception as exn:  # noqa
            key = 'assign:' + Bd.errname(exn)
            T.raised[key] = T.raised.get(key, 0) + 1
            continue
        vals = marg_values(pat, n)
        xs = [consts[s] + coefs[s][:, :2] @ vals[s]['z'] + coefs[s][:, 2:5] @ vals[s]['w'] + coefs[s][:, 5] * vals[s]['u']
              for s in range(n)]
        ptxt = ', '.join('%s:%s' % (nm, {'c': 'common', 'b': 'common scalar', 's': 'scenario-wise'}[k]) for nm, k in pat) or 'no argument'
        for nm, e in exprs.items():
            if nm in MARG_BIAFF and pat not in pats_two:
                continue
            exps = [np.asarray(_marg_expr(nm, xs[s], pvs[s], rq0, vals[s]['z'], vals[s]['w'], vals[s]['u']), dtype=float)
                    for s in range(n)]
            if is_ro:
                T.item('(%s)(%s)' % (nm, ptxt), lambda: e(*args), exps[0])
            else:
                T.item('(%s)(%s)' % (nm, ptxt), lambda: e(*args), exps, labels=L)
            if T.viol is not None and where is None:
                where = nm
        if T.viol is not None:
            break
    for nm, er in built_err.items():
        T.raised['build:' + er] = T.raised.get('build:' + er, 0) + 1
    res = T.result('margs[%s,%s]' % (fe, grp))
    if res['status'] == 'violation':
        parts = res['sig'].split('|')
        cls = 'ldr'
        if not is_ro:
            firsts = [min(b) for b in order_x]
            inorder = firsts == sorted(firsts) and all(sorted(b) == list(range(min(b), max(b) + 1)) for b in order_x)
            cls = 'single event' if len(order_x) == 1 else ('events listed in scenario order' if inorder else
                                                            'events not listed in scenario order')
        res['sig'] = '|'.join(parts[:3] + [where, cls] + parts[3:])
    return res
