"""C02 - the robust counterpart is exact: reported optimum == optimum of the semi-infinite problem.

Same state space as C01.  Oracle: rsmc/ref/roref.solve = scenario LP over the reference point lists of the sets
(exact vertices for polytopes; boundary lattice with cutting planes and exact argmax over the lattice for curved
sets), LDR coefficients restricted to the declared mask, equalities imposed as identities on the affine hull.
"""
from . import ro_specs, ro_common
from ..ref import roref

PROPERTY = 'C02'
TIMEOUT = 120.0
CHUNK = 4
FLOOR = 0.4
RULE = ('same enumeration as C01; non-trivial = both rsome and the reference report an optimum; distinct = distinct '
        'spec; the evidence also counts distinct reference optimum values (discriminating instances)')
ASSUMPTIONS = ['reference optimum is exact for polytopes (vertex enumeration) and a lower bound within eps*L for curved '
               'sets (inner approximation by member points; eps 1e-6 smooth / 5e-4 curved-curved corners, L=20)',
               'rsome reporting failure where the reference is optimal is alarmed only for LP-class models '
               '(HiGHS); for conic models it is counted as solver failure',
               'tolerance: 2e-6 HiGHS, 2e-5 ECOS, 2e-4 Gurobi barrier (relative to 1+|value|)']
TRUSTED = ['CPython', 'NumPy', 'SciPy linprog (HiGHS) as reference LP solver', 'rsmc/ref/sets.py', 'rsmc/ref/roref.py']

worker_init = ro_common.worker_init


def gen_cases(tier, seed):
    for spec in ro_specs.gen_specs(tier, seed):
        yield spec


def bounds(tier):
    return {'d': [1, 2, 3], 'nx': 2, 'ny<=': 2, 'palettes': 4 if tier == 'thorough' else 1,
            'set_kinds_d2': len(ro_specs.sets_catalog(2)), 'lattice_directions': 40000}


def run_case(spec):
    r = ro_common.solve_spec(spec)
    ops = r['ops']
    tag = spec['tag']
    if r['status'] == 'raised':
        return {'status': 'vacuous', 'outcome': 'raised:' + r.get('stage', ''), 'ops': ops, 'detail': r.get('err')}
    ref = roref.solve(spec)
    if r['status'] != 'optimal':
        if ref['status'] == 'optimal':
            if spec['cls'] == 'lp' and spec.get('solver', 'def') in ('def', 'ort', 'grb'):
                return {'status': 'violation', 'sig': '%s|reported infeasible/unbounded but optimum exists' % tag,
                        'ops': ops, 'detail': 'rsome status %s, reference optimum %.8g at %s'
                        % (r.get('solver_status'), ref['value'], ref['sol'])}
            return {'status': 'vacuous', 'outcome': 'solver failed, reference optimal', 'ops': ops}
        return {'status': 'pass', 'outcome': 'both non-optimal:' + ref['status'], 'ops': ops, 'nontrivial': False}
    if ref['status'] != 'optimal':
        if ref['status'] == 'infeasible':
            return {'status': 'violation', 'sig': '%s|optimum reported for an infeasible model' % tag, 'ops': ops,
                    'detail': 'rsome value %.8g sol %s' % (r['value'], r['sol'])}
        return {'status': 'vacuous', 'outcome': 'reference ' + ref['status'], 'ops': ops}
    tol = ro_common.TOL[spec.get('solver', 'def')] * (1 + abs(ref['value'])) * 5 + 20 * ref['eps']
    diff = r['value'] - ref['value']
    if abs(diff) > tol:
        sgn = 1 if spec['obj']['kind'] in ('min', 'minmax') else -1
        kind = 'conservative' if sgn * diff > 0 else 'unsafe'
        return {'status': 'violation', 'sig': '%s|value %s' % (tag, kind), 'ops': ops,
                'detail': 'rsome %.8g reference %.8g (tol %.1e) ; rsome sol %s ; ref sol %s'
                % (r['value'], ref['value'], tol, r['sol'], ref['sol'])}
    return {'status': 'pass', 'outcome': 'equal', 'ops': ops, 'nontrivial': True,
            'refval': round(ref['value'], 5)}
