"""Long-lived worker pool with a parent-side watchdog.

Cases are dealt in chunks to N worker processes.  A worker reports each case as soon as it is
done; the parent kills a worker that stays silent longer than the per-case deadline (solver C
code cannot be interrupted from Python), records the case it was on as `timeout` and re-queues
the untouched remainder of its chunk.
"""
import importlib
import multiprocessing as mp
import multiprocessing.connection as mpc
import os
import time
import traceback
from collections import deque


def _worker_main(conn, module_name, debug):
    from . import use_repo
    from .quiet import silence_fds
    if not debug:
        silence_fds()
    use_repo()
    import warnings
    warnings.simplefilter('ignore')
    try:
        mod = importlib.import_module(module_name)
        if hasattr(mod, 'worker_init'):
            mod.worker_init()
    except BaseException:
        conn.send(('fatal', traceback.format_exc()))
        return
    while True:
        try:
            msg = conn.recv()
        except EOFError:
            return
        if msg is None:
            return
        for idx, case in msg:
            t0 = time.time()
            try:
                res = mod.run_case(case)
            except BaseException:
                res = {'status': 'harness_error', 'detail': traceback.format_exc()[-2000:]}
            res['t'] = round(time.time() - t0, 4)
            conn.send((idx, res))
        conn.send(('done', None))


class _Worker:
    def __init__(self, ctx, module_name, debug):
        self.parent, child = ctx.Pipe()
        self.proc = ctx.Process(target=_worker_main, args=(child, module_name, debug), daemon=True)
        self.proc.start()
        child.close()
        self.pending = deque()
        self.last = time.time()
        self.busy = False

    def kill(self):
        try:
            self.proc.kill()
            self.proc.join(2)
        except Exception:
            pass
        try:
            self.parent.close()
        except Exception:
            pass


def run_pool(module_name, cases, on_result, nproc=None, timeout=60.0, chunk=8, debug=False):
    """Run every case of iterable `cases` (yielding (idx, case)) through module.run_case.

    on_result(idx, case, result) is called in the parent for every case (in completion order).
    Returns dict with counts of timeouts and respawns.
    """
    ctx = mp.get_context('fork')
    nproc = nproc or min(16, os.cpu_count() or 4)
    workers = [_Worker(ctx, module_name, debug) for _ in range(nproc)]
    it = iter(cases)
    requeue = deque()
    exhausted = False
    stats = {'timeouts': 0, 'respawns': 0}
    casemap = {}

    def next_chunk():
        nonlocal exhausted
        out = []
        while len(out) < chunk:
            if requeue:
                out.append(requeue.popleft())
                continue
            if exhausted:
                break
            try:
                item = next(it)
            except StopIteration:
                exhausted = True
                break
            out.append(item)
        return out

    def feed(w):
        ch = next_chunk()
        if not ch:
            w.busy = False
            return
        for idx, case in ch:
            casemap[idx] = case
        w.pending = deque(ch)
        w.busy = True
        w.last = time.time()
        w.parent.send(ch)

    for w in workers:
        feed(w)

    while any(w.busy for w in workers):
        conns = [w.parent for w in workers if w.busy]
        ready = mpc.wait(conns, timeout=0.25)
        now = time.time()
        for i, w in enumerate(workers):
            if not w.busy:
                continue
            dead = False
            if w.parent in ready:
                try:
                    while w.parent.poll():
                        idx, res = w.parent.recv()
                        w.last = now
                        if idx == 'done':
                            feed(w)
                            if not w.busy:
                                break
                        elif idx == 'fatal':
                            raise RuntimeError('worker failed to start:\n' + res)
                        else:
                            if w.pending and w.pending[0][0] == idx:
                                w.pending.popleft()
                            on_result(idx, casemap.pop(idx), res)
                except (EOFError, ConnectionResetError, BrokenPipeError):
                    dead = True
            if w.busy and (dead or now - w.last > timeout):
                # the case at the head of pending is the culprit
                if w.pending:
                    idx, case = w.pending.popleft()
                    casemap.pop(idx, None)
                    status = 'crash' if dead else 'timeout'
                    on_result(idx, case, {'status': status, 'detail': status, 't': timeout})
                    stats['timeouts'] += 1
                requeue.extend(w.pending)
                w.kill()
                stats['respawns'] += 1
                workers[i] = nw = _Worker(ctx, module_name, debug)
                feed(nw)
    for w in workers:
        try:
            w.parent.send(None)
        except Exception:
            pass
    for w in workers:
        w.proc.join(1)
        if w.proc.is_alive():
            w.kill()
    return stats
