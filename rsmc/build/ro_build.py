"""RoSpec -> real rsome.ro model (several surface styles).  Counts the API operations it applies."""
import numpy as np


class Built:
    pass


class _Le:
    """lhs <= rhs, recorded unevaluated so that a multiplier can be applied to both sides."""

    def __init__(self, lhs, rhs):
        self.lhs, self.rhs = lhs, rhs

    def __le__(self, rhs):
        raise TypeError


class _Scaled(list):
    """list of constraints; `append(_Le(f, r))` with self.mult = c writes  c*f <= c*r  (c > 0)  or  c*f >= c*r  (c < 0)."""
    mult = None

    def append(self, con):
        if isinstance(con, _Le):
            c = self.mult
            if c is None:
                con = con.lhs <= con.rhs
            elif c > 0:
                con = c * con.lhs <= c * con.rhs
            else:
                con = c * con.lhs >= c * con.rhs
        list.append(self, con)

    def __iadd__(self, cons):
        for con in cons:
            self.append(con)
        return self


def set_constraints(rso, z, pieces, d):
    """List of rsome constraints on random variable z describing the intersection of `pieces`."""
    out = _Scaled()
    for pc in pieces:
        k = pc['k']
        st = pc.get('style')
        out.mult = pc.get('mult')
        if k == 'box':
            lo, hi = np.array(pc['lo'], float), np.array(pc['hi'], float)
            if st in (None, 'bounds'):
                out += [z >= lo, z <= hi]
            elif st == 'abs':
                out += [_Le(abs(z - (lo + hi) / 2), (hi - lo) / 2)]
            elif st == 'rows':
                out += [np.eye(d) @ z <= hi, -1.0 * z <= -lo]
            elif st == 'entry':
                for i in range(d):
                    out += [z[i] >= float(lo[i]), z[i] <= float(hi[i])]
            elif st == 'scalar':
                out += [z >= float(lo[0]), z <= float(hi[0])]
            else:
                raise ValueError(st)
        elif k == 'ninf':
            out.append(_Le(rso.norm(z - np.array(pc['c'], float), 'inf'), pc['r']))
        elif k == 'n1':
            out.append(_Le(rso.norm(z - np.array(pc['c'], float), 1), pc['r']))
        elif k == 'n2':
            c = np.array(pc['c'], float)
            e = z - c
            if 'M' in pc:
                M = np.array(pc['M'], float)
                if st == 'quad':
                    out.append(_Le(rso.quad(e, M.T @ M), pc['r'] ** 2))
                else:
                    out.append(_Le(rso.norm(M @ e), pc['r']))
            elif st in (None, 'norm'):
                out.append(_Le(rso.norm(e), pc['r']))
            elif st == 'norm2':
                out.append(_Le(rso.norm(e, 2), pc['r']))
            elif st == 'sumsqr':
                out.append(_Le(rso.sumsqr(e), pc['r'] ** 2))
            elif st == 'quad':
                out.append(_Le(rso.quad(e, np.eye(d)), pc['r'] ** 2))
            elif st == 'square':
                out.append(_Le(rso.square(e), pc['r'] ** 2))
            else:
                raise ValueError(st)
        elif k == 'pn':
            p = pc['p']
            p = tuple(p) if isinstance(p, list) else p
            out.append(_Le(rso.pnorm(z - np.array(pc['c'], float), p, pc.get('method')), pc['r']))
        elif k == 'lin':
            out.append(np.array(pc['A'], float) @ z <= np.array(pc['b'], float))
        elif k == 'eq':
            A = np.array(pc['A'], float)
            if st == 'sum':
                out.append(z.sum() == float(pc['b'][0]))
            elif st == 'direct':
                out.append(z == np.array(pc['b'], float))
            else:
                out.append(A @ z == np.array(pc['b'], float))
        elif k == 'ent':
            out.append(rso.entropy(z) >= pc['e'])
        elif k == 'kl':
            out.append(rso.kldiv(z, np.array(pc['q'], float), pc['r']))
        elif k == 'expc':
            out.append(rso.exp(z[pc['i']]) <= z[pc['j']])
        else:
            raise ValueError(k)
    return list(out)


def _set_args(cs, attach):
    """The ways a set (list of constraints) can be handed to minmax / maxmin / forall."""
    cs = list(cs)
    if attach == 'list':
        return (cs,)
    if attach == 'args':
        return tuple(cs)
    if attach == 'gen':
        return ((c for c in cs),)
    if attach == 'mixed':        # bare constraint(s) first, an iterable last
        return tuple(cs[:1]) + (cs[1:],) if len(cs) > 1 else (cs,)
    if attach == 'lists':        # several iterables
        return (cs[:1], tuple(cs[1:])) if len(cs) > 1 else (cs,)
    if attach == 'listbare':     # an iterable first, bare constraints after it
        return (cs[:-1],) + tuple(cs[-1:]) if len(cs) > 1 else (cs,)
    raise ValueError(attach)


def _expr(rso, b, row, style):
    """The bi-affine expression g of a row / objective piece."""
    x, y, z = b.x, b.y, b.z
    nx, d, ny = b.spec['nx'], b.spec['d'], b.spec.get('ny', 0)
    ax = np.array(row.get('ax', [0.0] * nx), float)
    Az = np.array(row.get('Az', np.zeros((d, nx))), float).reshape(d, nx)
    cz = np.array(row.get('cz', [0.0] * d), float)
    c0 = float(row.get('c0', 0.0))
    terms = []
    if ax.any() and not (Az.any() and style in ('F', 'G')):
        terms.append(ax @ x)
    if Az.any():
        if style == 'F':          # random affine with a constant part, times decisions
            terms.append(((Az.T @ z) + ax) @ x)
        elif style == 'G':
            terms.append(x @ (ax + (Az.T @ z)))
        elif style == 'A':
            terms.append(z @ (Az @ x))
        elif style == 'B':
            terms.append((Az.T @ z) @ x)
        elif style == 'C':
            terms.append((x * (Az.T @ z)).sum())
        elif style == 'D':
            terms.append(x @ (Az.T @ z))
        elif style == 'E':
            terms.append(((Az.T @ z) * x).sum())
        else:
            raise ValueError(style)
    if ny:
        by = np.array(row.get('by', [0.0] * ny), float)
        if by.any():
            if style in ('A', 'C', 'F'):
                terms.append(by @ y)
            elif style in ('B', 'E', 'G'):
                terms.append((y * by).sum())
            else:
                t = None
                for j in range(ny):
                    if by[j]:
                        tj = float(by[j]) * y[j]
                        t = tj if t is None else t + tj
                terms.append(t)
    if cz.any():
        terms.append(cz @ z)
    if not terms:
        return c0
    e = terms[0]
    for t in terms[1:]:
        e = e + t
    if c0:
        e = e + c0
    b.ops += len(terms) + 1
    return e


def _piecewise(rso, b, convex, gs, hkind, form):
    """max(gs) (convex) or min(gs) written as a piecewise function; with an offset h the SAME function is written as
    maxof(g - h, ..) + h,  h + maxof(g - h, ..),  maxof(g + h, ..) - h  or  h - minof(h - g, ..)."""
    F, G = (rso.maxof, rso.minof) if convex else (rso.minof, rso.maxof)
    if not hkind:
        return F(*gs)
    h = {'const': 1.25, 'x': 0.5 * b.x[0] + 0.25, 'z': 0.5 * b.z[0] - 0.25}[hkind]
    b.ops += 2 * len(gs) + 1
    if form == 'add':
        return F(*[g - h for g in gs]) + h
    if form == 'radd':
        return h + F(*[g - h for g in gs])
    if form == 'sub':
        return F(*[g + h for g in gs]) - h
    if form == 'rsub':
        return h - G(*[h - g for g in gs])
    raise ValueError(form)


def build(rsome, spec):
    """Build the ro model described by spec on the real rsome; returns a Built handle."""
    from rsome import ro
    rso = rsome
    b = Built()
    b.spec = spec
    b.ops = 0
    m = ro.Model()
    b.m = m
    nx, d, ny = spec['nx'], spec['d'], spec.get('ny', 0)
    b.x = x = m.dvar(nx)
    b.z = z = m.rvar(d)
    b.ops += 2
    b.y = None
    if ny:
        b.y = y = m.ldr(ny)
        mask = np.array(spec['mask'], int).reshape(ny, d)
        stl = spec.get('adapt_style', 'entry')
        b.ops += 1
        if stl == 'whole' and mask.all():
            y.adapt(z)
            b.ops += 1
        elif stl == 'rowwise':
            for j in range(ny):
                if mask[j].all():
                    y[j].adapt(z)
                    b.ops += 1
                else:
                    for i in range(d):
                        if mask[j, i]:
                            y[j].adapt(z[i])
                            b.ops += 1
        elif stl == 'colwise' and all(mask[:, i].all() or not mask[:, i].any() for i in range(d)):
            for i in reversed(range(d)):
                if mask[:, i].all():
                    y.adapt(z[i])
                    b.ops += 1
        else:
            for j in range(ny):
                for i in range(d):
                    if mask[j, i]:
                        y[j].adapt(z[i])
                        b.ops += 1
    if spec.get('late_rvar'):
        # a further random variable declared after the adaptation calls and before the rule is first used
        b.u = m.rvar()
        b.ops += 1
    sets = {}
    retarget = spec.get('retarget')
    b.retargets = []

    def attach_set(con, name, attach):
        """con.forall(set `name`); in a retarget history the constraint first gets a DECOY set, the real set is attached
        to the same (already stated) object after the first formulation."""
        if retarget:
            b.retargets.append((con, name, attach))
            lo = np.full(d, -0.125) + np.array(spec['sets'][name].get('centre', [0.0] * d), float)
            return con.forall(z >= lo, z <= lo + 0.25)
        return con.forall(*_set_args(get_set(name), attach))

    def get_set(name):
        # constraints are re-created at each use: the same python objects are never shared between two sets
        st = spec['sets'][name]
        return set_constraints(rso, z, st['pieces'], d)

    m.st(x >= np.array(spec['xlo'], float), x <= np.array(spec['xhi'], float))
    b.ops += 1
    # objective first or last
    def declare_obj():
        o = spec['obj']
        pcs = [_expr(rso, b, pc, pc.get('style', 'A')) for pc in o['pieces']]
        if len(pcs) == 1:
            e = pcs[0]
        else:
            hk = (spec.get('pwoff') or [None, None])[0]
            if hk == 'z' and o['kind'] in ('min', 'max'):
                hk = 'x'        # no uncertainty set on a deterministic objective
            e = _piecewise(rso, b, o['kind'] in ('min', 'minmax'), pcs, hk, (spec.get('pwoff') or [None, None])[1])
        if o['kind'] in ('min', 'max'):
            getattr(m, o['kind'])(e)
        else:
            cs = get_set(spec['default'])
            getattr(m, o['kind'])(e, *_set_args(cs, o.get('attach', 'list')))
        b.ops += 2

    if spec.get('obj_first', True):
        declare_obj()
    rows_iter = spec['rows']
    if spec.get('vec'):
        # rows sharing (set, sense) are written as ONE array-valued constraint
        groups = {}
        for row in spec['rows']:
            groups.setdefault((row.get('set'), row['sense'], row.get('attach', 'list')), []).append(row)
        rows_iter = []
        for (name, sense, attach), grp in groups.items():
            R = len(grp)
            AX = np.array([r.get('ax', [0.0] * nx) for r in grp], float)
            CZ = np.array([r.get('cz', [0.0] * d) for r in grp], float)
            c0 = np.array([r.get('c0', 0.0) for r in grp], float)
            G = AX @ x + c0
            for i in range(d):
                Mi = np.array([np.array(r.get('Az', np.zeros((d, nx))), float).reshape(d, nx)[i] for r in grp])
                if Mi.any():
                    G = G + z[i] * (Mi @ x)
            if ny:
                BY = np.array([r.get('by', [0.0] * ny) for r in grp], float)
                if BY.any():
                    G = G + BY @ b.y
            if CZ.any():
                G = G + CZ @ z
            con = (G <= 0) if sense == '<=' else (G >= 0) if sense == '>=' else (G == 0)
            if name is not None and hasattr(con, 'forall'):
                con = attach_set(con, name, attach)
            m.st(con)
            b.ops += 4 + R
    if spec.get('pw') and not spec.get('vec'):
        # rows sharing (set, sense) are written as ONE piecewise constraint  maxof(g1, g2, ..) <= 0 / minof(..) >= 0
        groups = {}
        for row in spec['rows']:
            groups.setdefault((row.get('set'), row['sense'], row.get('attach', 'list')), []).append(row)
        rows_iter = []
        for (name, sense, attach), grp in groups.items():
            if sense == '==' or len(grp) < 2:
                rows_iter += grp
                continue
            gs = [_expr(rso, b, r, r.get('style', 'A')) for r in grp]
            hk, form = spec.get('pwoff') or [None, None]
            pwf = _piecewise(rso, b, sense == '<=', gs, hk, form)
            con = (pwf <= 0) if sense == '<=' else (pwf >= 0)
            if name is not None:
                con = attach_set(con, name, attach)
            m.st(con)
            b.ops += 3 + len(grp)
    for row in rows_iter:
        g = _expr(rso, b, row, row.get('style', 'A'))
        if row.get('split'):
            # move the constant and random part to the right-hand side
            cz = np.array(row.get('cz', [0.0] * d), float)
            r2 = dict(row, cz=[0.0] * d, c0=0.0)
            lhs = _expr(rso, b, r2, row.get('style', 'A'))
            rhs = -(cz @ z) - float(row.get('c0', 0.0)) if cz.any() else -float(row.get('c0', 0.0))
            con = (lhs <= rhs) if row['sense'] == '<=' else (lhs >= rhs) if row['sense'] == '>=' else (lhs == rhs)
        else:
            con = (g <= 0) if row['sense'] == '<=' else (g >= 0) if row['sense'] == '>=' else (g == 0)
        name = row.get('set')
        if name is not None and hasattr(con, 'forall'):
            con = attach_set(con, name, row.get('attach', 'list'))
            b.ops += 1
        m.st(con)
        b.ops += 2
    if not spec.get('obj_first', True):
        declare_obj()
    if retarget:
        # first formulation with the decoy sets, then the declared sets are attached to the stated constraint objects
        try:
            if retarget == 'S':
                if spec.get('solver', 'def') == 'def':
                    m.solve(display=False)
                else:
                    import rsome as _r
                    m.solve({'eco': _r.eco_solver, 'grb': _r.grb_solver, 'ort': _r.ort_solver}[spec['solver']], display=False)
            elif retarget == 'P':
                m.do_math()
            elif retarget == 'D':
                m.do_math(primal=False)
            elif retarget == 'PD':
                m.do_math()
                m.do_math(primal=False)
        except Exception:  # noqa  (the decoy model need not be solvable)
            pass
        for con, name, attach in b.retargets:
            con.forall(*_set_args(get_set(name), attach))
            b.ops += 1
        b.ops += 1
    return b


def read_solution(b):
    spec = b.spec
    ny, d = spec.get('ny', 0), spec['d']
    sol = {'x': np.array(b.x.get(), float).reshape(-1).tolist(), 'y0': [], 'Y': []}
    if ny:
        sol['y0'] = np.array(b.y.get(), float).reshape(-1).tolist()
        if np.array(spec['mask']).any():
            sol['Y'] = np.array(b.y.get(b.z), float).reshape(ny, d).tolist()
        else:
            sol['Y'] = np.zeros((ny, d)).tolist()
    return sol
