"""DroSpec -> real rsome.dro model.  Counts API operations."""
import numpy as np


class Built:
    pass


def _mu_constraints(rso, ez, pieces, d):
    """constraints on the expectation variable ez = E(z) describing a polyhedral set of means."""
    out = []
    for pc in pieces:
        k = pc['k']
        if k == 'box':
            lo, hi = np.array(pc['lo'], float), np.array(pc['hi'], float)
            if pc.get('style') == 'abs':
                out.append(abs(ez - (lo + hi) / 2) <= (hi - lo) / 2)
            else:
                out += [ez >= lo, ez <= hi]
        elif k == 'eq':
            if pc.get('style') == 'direct':
                out.append(ez == np.array(pc['b'], float))
            else:
                out.append(np.array(pc['A'], float) @ ez == np.array(pc['b'], float))
        elif k == 'lin':
            out.append(np.array(pc['A'], float) @ ez <= np.array(pc['b'], float))
        elif k == 'n1':
            out.append(rso.norm(ez - np.array(pc['c'], float), 1) <= pc['r'])
        elif k == 'ninf':
            out.append(rso.norm(ez - np.array(pc['c'], float), 'inf') <= pc['r'])
        elif k == 'n2':
            out.append(rso.norm(ez - np.array(pc['c'], float)) <= pc['r'])
        else:
            raise ValueError(k)
    return out


def declare_ambiguity(rso, b, amb, fset=None, decoy=False):
    """fset=None: create the ambiguity set.  decoy=True: declare only DECOY supports / probabilities (a small box for
    every scenario, uniform probabilities) - the real declaration follows later on the same object (late histories)."""
    from .ro_build import set_constraints, _set_args
    m, z, spec = b.m, b.z, b.spec
    d, ns = spec['d'], spec['S']
    labels = spec['labels']
    if fset is None:
        fset = m.ambiguity()
        b.ops += 1
    if decoy:
        fset.suppset(z >= -0.25, z <= 0.25)
        if amb.get('prob', {'kind': 'free'})['kind'] != 'free':
            fset.probset(m.p == 1.0 / ns)
        b.ops += 2
        return fset
    decl = amb.get('supp_decl', 'each')
    if decl == 'global':
        fset.suppset(*_set_args(set_constraints(rso, z, amb['supp'][0]['pieces'], d), 'mixed'))
        b.ops += 1
    else:
        for s in range(ns):
            cs = set_constraints(rso, z, amb['supp'][s]['pieces'], d)
            if decl == 'each':
                fset[labels[s]].suppset(*_set_args(cs, ('list', 'mixed', 'lists', 'listbare')[(s + ns) % 4]))
            elif decl == 'iloc':
                fset.iloc[s].suppset(*cs)
            elif decl == 'loc':
                fset.loc[labels[s]].suppset(cs)
            else:
                raise ValueError(decl)
            b.ops += 1
    for ex in amb.get('expts', []):
        cs = _mu_constraints(rso, rso.E(z), ex['pieces'], d)
        ev = ex['event']
        how = ex.get('decl', 'auto')
        if len(ev) == ns and how in ('auto', 'all'):
            fset.exptset(cs)
        elif how in ('auto', 'index'):
            fset[[labels[s] for s in ev]].exptset(cs)
        elif how == 'iloc':
            fset.iloc[list(ev)].exptset(*cs)
        elif how == 'loc':
            fset.loc[[labels[s] for s in ev]].exptset(cs)
        else:
            raise ValueError(how)
        b.ops += 1
    pr = amb.get('prob', {'kind': 'free'})
    p = m.p
    if pr['kind'] != 'free':
        phat = np.array(pr['phat'], float)
        if pr['kind'] == 'fixed':
            fset.probset(p == phat)
        elif pr['kind'] == 'box':
            fset.probset(abs(p - phat) <= pr['r'])
        elif pr['kind'] == 'ninf':
            fset.probset(rso.norm(p - phat, 'inf') <= pr['r'])
        elif pr['kind'] == 'n1':
            fset.probset(rso.norm(p - phat, 1) <= pr['r'])
        elif pr['kind'] == 'n2':
            fset.probset(rso.norm(p - phat) <= pr['r'])
        elif pr['kind'] == 'kl':
            fset.probset(rso.kldiv(p, phat, pr['r']))
        else:
            raise ValueError(pr['kind'])
        b.ops += 1
    return fset


def _expr(b, piece):
    x, y, z = b.x, b.y, b.z
    spec = b.spec
    nx, d, ny = spec['nx'], spec['d'], spec.get('ny', 0)
    ax = np.array(piece.get('ax', [0.0] * nx), float)
    Az = np.array(piece.get('Az', np.zeros((d, nx))), float).reshape(d, nx)
    cz = np.array(piece.get('cz', [0.0] * d), float)
    c0 = float(piece.get('c0', 0.0))
    style = piece.get('style', 'A')
    terms = []
    if ax.any():
        terms.append(ax @ x)
    if ny:
        by = np.array(piece.get('by', [0.0] * ny), float)
        if by.any():
            if isinstance(y, list):     # ny separate scalar decision variables
                ys = [by[j] * y[j] for j in range(ny) if by[j]]
                t = ys[0]
                for u_ in ys[1:]:
                    t = t + u_
                terms.append(t)
            else:
                terms.append(by @ y if style != 'B' else (y * by).sum())
    if Az.any():
        if style == 'A':
            terms.append(z @ (Az @ x))
        elif style == 'B':
            terms.append((Az.T @ z) @ x)
        else:
            terms.append((x * (Az.T @ z)).sum())
    if cz.any():
        terms.append(cz @ z)
    if not terms:
        return c0
    e = terms[0]
    for t in terms[1:]:
        e = e + t
    if c0:
        e = e + c0
    b.ops += len(terms) + 1
    return e


def _piecewise(rso, b, convex, gs, off, use_e):
    """max(gs) (convex) / min(gs), optionally under E(.), written directly or - with off = [hkind, form, pos] - as the
    SAME function with an offset h:  F(g-h)+h, h+F(g-h), F(g+h)-h, h-G(h-g), 2*F(g/2), -G(-g); pos 'in' applies the form
    to the piecewise function before E(.), 'out' to the expectation object (h constant or a static decision)."""
    F, G = (rso.maxof, rso.minof) if convex else (rso.minof, rso.maxof)
    if not off:
        e = F(*gs)
        return rso.E(e) if use_e else e
    hk, form, pos = off
    if hk == 'y' and b.y is None:
        hk = 'x'
    h = {'const': 1.25, 'x': 0.5 * b.x[0] + 0.25, 'z': 0.5 * b.z[0] - 0.25,
         'y': (0.5 * b.y[0]) if b.y is not None else None}[hk]
    outside = use_e and pos == 'out'
    if outside and hk in ('z', 'y'):
        raise ValueError('offset kind %s is not available outside E(.)' % hk)
    W = rso.E if outside else (lambda e: e)
    b.ops += 2 * len(gs) + 2
    if form == 'add':
        e = W(F(*[g - h for g in gs])) + h
    elif form == 'radd':
        e = h + W(F(*[g - h for g in gs]))
    elif form == 'sub':
        e = W(F(*[g + h for g in gs])) - h
    elif form == 'rsub':
        e = h - W(G(*[h - g for g in gs]))
    elif form == 'mul':
        e = 2 * W(F(*[0.5 * g for g in gs]))
    elif form == 'neg':
        e = -W(G(*[-g for g in gs]))
    else:
        raise ValueError(form)
    return rso.E(e) if (use_e and not outside) else e


def build(rsome, spec):
    from rsome import dro
    rso = rsome
    b = Built()
    b.spec = spec
    b.ops = 0
    labels = spec['labels']
    ns = spec['S']
    m = dro.Model(ns) if labels == list(range(ns)) else dro.Model(labels)
    b.m = m
    nx, d, ny = spec['nx'], spec['d'], spec.get('ny', 0)
    b.x = x = m.dvar(nx)
    b.z = z = m.rvar(d)
    b.y = None
    b.ops += 3
    for blk in spec.get('xdecl', []):
        x.adapt([labels[s] for s in blk] if len(blk) > 1 else labels[blk[0]])
        b.ops += 1
    if ny and spec.get('ysplit'):
        # ny separate scalar variables, each with its own event-wise and affine adaptation calls
        b.y = y = []
        mask = np.array(spec['mask'], int).reshape(ny, d)
        for j in range(ny):
            yj = m.dvar()
            y.append(yj)
            for blk in spec.get('ydecl', []):
                yj.adapt([labels[s] for s in blk] if len(blk) > 1 else labels[blk[0]])
                b.ops += 1
            if mask[j].all() and spec.get('adapt_style') == 'whole':
                yj.adapt(z)
                b.ops += 1
            else:
                for i in range(d):
                    if mask[j, i]:
                        yj.adapt(z[i])
                        b.ops += 1
        b.ops += ny
    elif ny:
        b.y = y = m.dvar(ny)
        b.ops += 1
        for blk in spec.get('ydecl', []):
            y.adapt([labels[s] for s in blk] if len(blk) > 1 else labels[blk[0]])
            b.ops += 1
        mask = np.array(spec['mask'], int).reshape(ny, d)
        if mask.all() and spec.get('adapt_style') == 'whole':
            y.adapt(z)
            b.ops += 1
        else:
            for j in range(ny):
                for i in range(d):
                    if mask[j, i]:
                        y[j].adapt(z[i])
                        b.ops += 1
    late = spec.get('late')
    b.F = declare_ambiguity(rso, b, spec['F'], decoy=bool(late)) if spec.get('F') else None
    b.F2 = declare_ambiguity(rso, b, spec['F2']) if spec.get('F2') else None

    o = spec['obj']
    pcs = [_expr(b, pc) for pc in o['pieces']]
    if len(pcs) == 1:
        e = pcs[0]
        if o.get('E'):
            e = rso.E(e)
    else:
        e = _piecewise(rso, b, o['kind'] in ('min', 'minsup'), pcs, spec.get('pwoff'), bool(o.get('E')))
    if o['kind'] in ('min', 'max'):
        getattr(m, o['kind'])(e)
    else:
        getattr(m, o['kind'])(e, b.F)
    b.ops += 2
    m.st(x >= np.array(spec['xlo'], float), x <= np.array(spec['xhi'], float))
    b.ops += 1
    rows_iter = spec['rows']
    if spec.get('vec'):
        # plain rows sharing (set, sense, E) are written as ONE array-valued constraint
        groups, rows_iter = {}, []
        for row in spec['rows']:
            if 'pieces' in row:
                rows_iter.append(row)
            else:
                groups.setdefault((row.get('set'), row['sense'], bool(row.get('E'))), []).append(row)
        for (name, sense, use_e), grp in groups.items():
            AX = np.array([r.get('ax', [0.0] * nx) for r in grp], float)
            CZ = np.array([r.get('cz', [0.0] * d) for r in grp], float)
            c0 = np.array([r.get('c0', 0.0) for r in grp], float)
            G = AX @ x + c0
            for i in range(d):
                Mi = np.array([np.array(r.get('Az', np.zeros((d, nx))), float).reshape(d, nx)[i] for r in grp])
                if Mi.any():
                    G = G + z[i] * (Mi @ x)
            if ny:
                BY = np.array([r.get('by', [0.0] * ny) for r in grp], float)
                if BY.any():
                    if isinstance(b.y, list):
                        for j in range(ny):
                            if BY[:, j].any():
                                G = G + BY[:, j] * b.y[j]
                    else:
                        G = G + BY @ b.y
            if CZ.any():
                G = G + CZ @ z
            if use_e:
                G = rso.E(G)
            con = (G <= 0) if sense == '<=' else (G >= 0) if sense == '>=' else (G == 0)
            if name == 'F2':
                con = con.forall(b.F2)
            elif name == 'F':
                con = con.forall(b.F)
            elif name == 'supp':
                from .ro_build import set_constraints
                con = con.forall(set_constraints(rso, z, grp[0]['supp']['pieces'], d))
            m.st(con)
            b.ops += 4 + len(grp)
    for row in rows_iter:
        if 'pieces' in row:
            gs = [_expr(b, dict(pc, style=row.get('style', 'A'))) for pc in row['pieces']]
            g = _piecewise(rso, b, row['sense'] == '<=', gs, spec.get('pwoff'), bool(row.get('E')))
        else:
            g = _expr(b, row)
            if row.get('E'):
                g = rso.E(g)
        con = (g <= 0) if row['sense'] == '<=' else (g >= 0) if row['sense'] == '>=' else (g == 0)
        name = row.get('set')
        if name == 'F2':
            con = con.forall(b.F2)
            b.ops += 1
        elif name == 'F':
            con = con.forall(b.F)
            b.ops += 1
        elif name == 'supp':
            from .ro_build import set_constraints
            con = con.forall(set_constraints(rso, z, row['supp']['pieces'], d))
            b.ops += 1
        m.st(con)
        b.ops += 2
    if late and b.F is not None:
        # first formulation under the decoy declaration, then the declared supports / expectation sets / probabilities
        try:
            if late == 'S':
                if spec.get('solver', 'def') == 'def':
                    m.solve(display=False)
                else:
                    m.solve({'eco': rso.eco_solver, 'grb': rso.grb_solver, 'ort': rso.ort_solver}[spec['solver']],
                            display=False)
            elif late == 'P':
                m.do_math()
            elif late == 'D':
                m.do_math(primal=False)
            elif late == 'PD':
                m.do_math()
                m.do_math(primal=False)
        except Exception:  # noqa  (the decoy model need not be solvable)
            pass
        declare_ambiguity(rso, b, spec['F'], fset=b.F)
        b.ops += 1
    return b


def _per_scen(val, ns):
    """Normalise the result of an expression call to a list with one entry per scenario."""
    import pandas as pd
    if isinstance(val, pd.Series):
        return [np.array(v, float).reshape(-1) for v in val.values]
    return [np.array(val, float).reshape(-1)] * ns


def read_decisions(b):
    """Decisions per block, read through the public expression-call API (x(), y(z.assign(v)))."""
    spec = b.spec
    ns, d, ny = spec['S'], spec['d'], spec.get('ny', 0)
    xs = _per_scen(b.x(), ns)
    dec = {'x': [xs[blk[0]].tolist() for blk in spec['xpart']]}
    if ny:
        def ycall(*a):
            if isinstance(b.y, list):
                parts = [_per_scen(yj(*a), ns) for yj in b.y]
                return [np.concatenate([parts[j][s_] for j in range(ny)]) for s_ in range(ns)]
            return _per_scen(b.y(*a), ns)
        y0 = ycall()
        dec['y0'] = [y0[blk[0]].tolist() for blk in spec['ypart']]
        Y = np.zeros((len(spec['ypart']), ny, d))
        if np.array(spec['mask']).any():
            for i in range(d):
                e = np.zeros(d)
                e[i] = 1.0
                yi = ycall(b.z.assign(e))
                for k, blk in enumerate(spec['ypart']):
                    Y[k, :, i] = yi[blk[0]] - y0[blk[0]]
        dec['Y'] = Y.tolist()
        b.ops += d + 1
    b.ops += 1
    return dec
