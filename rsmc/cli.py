"""./check <Cxx> [--tier quick|thorough] [--replay FILE] [--jobs N] [--limit N]

Runs the bounded exhaustive exploration of one property against the rsome working tree,
writes /verif/evidence/<Cxx>.json, prints VIOLATION / KNOWN-FINDING lines, exit 0/1 (3 = inconclusive).
"""
import argparse
import hashlib
import importlib
import json
import os
import re
import subprocess
import sys
import time

from . import VERIF, REPO

MAX_CONFIRM = 25          # distinct violation signatures confirmed in fresh processes
MAX_REPLAY_FILES = 40


def _key(case):
    return json.dumps(case, sort_keys=True, default=str)


def _load_known(prop):
    """Known findings: /verif/known_findings.json plus /verif/known_findings.d/*.json (same format)."""
    paths = [os.path.join(VERIF, 'known_findings.json')]
    d = os.path.join(VERIF, 'known_findings.d')
    if os.path.isdir(d):
        paths += [os.path.join(d, f) for f in sorted(os.listdir(d)) if f.endswith('.json')]
    out = []
    for path in paths:
        if not os.path.exists(path):
            continue
        with open(path) as f:
            data = json.load(f)
        out += [e for e in data.get('findings', []) if e.get('property') == prop]
    return out


def _match_known(known, sig):
    for e in known:
        if 'sig' in e and e['sig'] == sig:
            return e
        if 'sig_regex' in e and re.fullmatch(e['sig_regex'], sig):
            return e
    return None


def _fresh_replay(prop, case):
    """Run one case in a fresh interpreter; return its result dict (or None)."""
    env = dict(os.environ)
    env['PYTHONHASHSEED'] = '0'
    p = subprocess.run([sys.executable, '-m', 'rsmc.cli', prop, '--case-json', _key(case)],
                       cwd=VERIF, env=env, capture_output=True, text=True, timeout=600)
    for line in p.stdout.splitlines()[::-1]:
        if line.startswith('RESULT '):
            return json.loads(line[7:])
    return None


def run_single(mod, case, quiet_out=True):
    from . import use_repo
    use_repo()
    import warnings
    warnings.simplefilter('ignore')
    if hasattr(mod, 'worker_init'):
        mod.worker_init()
    if quiet_out:
        from .quiet import quiet
        with quiet():
            res = mod.run_case(case)
    else:
        res = mod.run_case(case)
    return res


def validate_evidence(path):
    schema = '/root/.vp/EVIDENCE.schema.json'
    if not os.path.exists(schema):
        schema = os.path.join(VERIF, 'rsmc', 'EVIDENCE.schema.json')
    code = ("import json,sys,jsonschema;"
            "jsonschema.validate(json.load(open(sys.argv[1])),json.load(open(sys.argv[2])))")
    for py in ('python3-vt', '/opt/veriftools/pyvenv/bin/python'):
        try:
            p = subprocess.run([py, '-c', code, path, schema], capture_output=True, text=True, timeout=60)
        except (FileNotFoundError, subprocess.TimeoutExpired):
            continue
        if p.returncode != 0 and 'ModuleNotFoundError' in p.stderr:
            continue
        return p.returncode == 0, p.stderr[-500:]
    return True, 'validator unavailable'


def main(argv=None):
    ap = argparse.ArgumentParser()
    ap.add_argument('prop')
    ap.add_argument('--tier', default=None)
    ap.add_argument('--replay')
    ap.add_argument('--case-json')
    ap.add_argument('--jobs', type=int, default=None)
    ap.add_argument('--limit', type=int, default=None)
    ap.add_argument('--debug', action='store_true')
    ap.add_argument('--no-confirm', action='store_true')
    ap.add_argument('--dump-outcome', default=None, help='debug: print cases whose outcome/status contains this')
    args = ap.parse_args(argv)

    prop = args.prop.upper()
    tier = os.environ.get('VERIF_TIER') or args.tier or 'quick'
    if tier not in ('quick', 'thorough'):
        tier = 'quick'
    try:
        seed = int(os.environ.get('VERIF_SEED', '0'))
    except ValueError:
        seed = 0
    modname = 'rsmc.props.' + prop.lower()
    mod = importlib.import_module(modname)

    if args.case_json:
        case = json.loads(args.case_json)
        res = run_single(mod, case)
        print('RESULT ' + json.dumps(res, default=str))
        return 0
    if args.replay:
        with open(args.replay) as f:
            rep = json.load(f)
        case = rep['case']
        res = run_single(mod, case, quiet_out=not args.debug)
        print(json.dumps({'case': case, 'result': res}, indent=1, default=str))
        if res.get('status') == 'violation':
            print(f'VIOLATION property={prop} replay={args.replay}')
            return 1
        return 0

    t0 = time.time()
    known = _load_known(prop)

    counts = {}
    outcomes = {}
    seen_keys = set()
    nontrivial_keys = set()
    tot = {'evals': 0, 'ops': 0, 'states': 0, 'transitions': 0, 'validated': 0}
    viols = {}          # sig -> list of (case, res)
    samples = []
    nt_samples = []
    herr = []
    slow = []
    dumped = [0]

    def cases():
        n = 0
        for case in mod.gen_cases(tier, seed):
            k = hashlib.sha1(_key(case).encode()).hexdigest()[:16]
            if k in seen_keys:
                continue
            seen_keys.add(k)
            yield (k, case)
            n += 1
            if args.limit and n >= args.limit:
                return

    def on_result(idx, case, res):
        st = res.get('status', 'harness_error')
        tot['evals'] += 1
        counts[st] = counts.get(st, 0) + 1
        oc = res.get('outcome')
        if oc is not None:
            oc = str(oc)
            outcomes[oc] = outcomes.get(oc, 0) + 1
        tot['ops'] += int(res.get('ops', 1))
        tot['states'] += int(res.get('states', 1))
        tot['transitions'] += int(res.get('transitions', res.get('ops', 1)))
        if st in ('pass', 'violation'):
            tot['validated'] += int(res.get('validated', 1))
        if res.get('nontrivial') and st == 'pass':
            nontrivial_keys.add(idx)
            if len(nt_samples) < 3:
                nt_samples.append({'case': case, 'result': _trim(res)})
        if len(samples) < 2:
            samples.append({'case': case, 'result': _trim(res)})
        if st == 'violation':
            sig = res.get('sig', 'unspecified')
            viols.setdefault(sig, []).append((case, res))
        elif st == 'harness_error':
            if len(herr) < 5:
                herr.append({'case': case, 'detail': res.get('detail')})
        if args.dump_outcome and (args.dump_outcome in str(oc) or args.dump_outcome == st) and dumped[0] < 40:
            dumped[0] += 1
            print('DUMP', json.dumps({'case': case, 'result': _trim(res)}, default=str))
        if res.get('t', 0) > 10 and len(slow) < 5:
            slow.append({'case': case, 't': res.get('t')})

    from .pool import run_pool
    stats = run_pool(modname, cases(), on_result, nproc=args.jobs,
                     timeout=getattr(mod, 'TIMEOUT', 60.0), chunk=getattr(mod, 'CHUNK', 8),
                     debug=args.debug)

    # ---- violations: confirm in fresh processes, match known findings -------------------
    new_viol = []
    known_hit = {}
    flaky = 0
    for n, sig in enumerate(sorted(viols)):
        case, res = viols[sig][0]
        e = _match_known(known, sig)
        if e is not None:
            known_hit.setdefault(e.get('what', sig), 0)
            known_hit[e.get('what', sig)] += len(viols[sig])
            continue
        confirmed = True
        if not args.no_confirm and n < MAX_CONFIRM:
            for _ in range(2):
                r2 = _fresh_replay(prop, case)
                if not r2 or r2.get('status') != 'violation' or r2.get('sig') != sig:
                    confirmed = False
                    break
        if confirmed:
            new_viol.append((sig, case, res, len(viols[sig])))
        else:
            flaky += len(viols[sig])

    rep_dir = os.path.join(os.environ.get('RSMC_REPLAY_DIR', os.path.join(VERIF, 'replays')), prop)
    lines = []
    for what, cnt in sorted(known_hit.items()):
        lines.append(f'KNOWN-FINDING: property={prop} {what} [{cnt} case(s)]')
    for i, (sig, case, res, cnt) in enumerate(new_viol):
        if i < MAX_REPLAY_FILES:
            os.makedirs(rep_dir, exist_ok=True)
            h = hashlib.sha1((sig + _key(case)).encode()).hexdigest()[:12]
            path = os.path.join(rep_dir, h + '.json')
            with open(path, 'w') as f:
                json.dump({'property': prop, 'sig': sig, 'case': case, 'result': _trim(res, 4000),
                           'same_sig_cases': cnt,
                           'replay_cmd': f'./check {prop} --replay replays/{prop}/{h}.json'},
                          f, indent=1, default=str)
            lines.append(f'VIOLATION property={prop} replay={path}  # {sig} ({cnt} case(s))')
    for ln in lines:
        print(ln)

    evals = tot['evals']
    conclusive = counts.get('pass', 0) + counts.get('violation', 0)
    floor = getattr(mod, 'FLOOR', 0.0)
    inconclusive = evals == 0 or (conclusive / max(evals, 1)) < floor

    wall = time.time() - t0
    ev = {
        'property_id': prop,
        'tier': tier,
        'seed': seed,
        'level': 'model_checking',
        'coverage': {
            'states': tot['states'],
            'transitions': tot['transitions'],
            'traces_validated_against_impl': tot['validated'],
            'samples': (nt_samples + samples)[:4] or [{'note': 'no case ran'}],
            'evaluations': evals,
            'distinct_nontrivial': len(nontrivial_keys),
            'rule': getattr(mod, 'RULE', ''),
            'exhaustive': bool(getattr(mod, 'exhaustive', lambda t: True)(tier)) and not args.limit,
            'bounds': getattr(mod, 'bounds', lambda t: {})(tier),
            'status_histogram': counts,
            'outcome_histogram': dict(sorted(outcomes.items(), key=lambda kv: -kv[1])[:60]),
            'distinct_outcomes': len(outcomes),
            'timeouts': stats['timeouts'],
            'worker_respawns': stats['respawns'],
            'unconfirmed_flaky_violations': flaky,
            'known_findings_matched': known_hit,
            'harness_errors': herr,
            'slow_cases': slow,
            'trusted_base': getattr(mod, 'TRUSTED', []),
            'repo': REPO,
        },
        'assumptions': getattr(mod, 'ASSUMPTIONS', []),
        'wall_s': round(wall, 2),
        'violations': len(new_viol),
    }
    evdir = os.environ.get('RSMC_EVIDENCE_DIR', os.path.join(VERIF, 'evidence'))
    os.makedirs(evdir, exist_ok=True)
    evpath = os.path.join(evdir, prop + '.json')
    with open(evpath, 'w') as f:
        json.dump(ev, f, indent=1, default=str)
    ok, msg = validate_evidence(evpath)
    print(f'{prop} tier={tier} seed={seed} cases={evals} states={tot["states"]} '
          f'transitions={tot["transitions"]} nontrivial={len(nontrivial_keys)} status={counts} '
          f'outcomes={len(outcomes)} timeouts={stats["timeouts"]} flaky={flaky} '
          f'known={sum(known_hit.values())} violations={len(new_viol)} wall={wall:.1f}s')
    if herr:
        print('harness errors (first):', json.dumps(herr[0], default=str)[:1500])
    if not ok:
        print('EVIDENCE INVALID:', msg)
        return 2
    if new_viol:
        return 1
    if inconclusive:
        print(f'INCONCLUSIVE property={prop} conclusive={conclusive}/{evals} floor={floor}')
        return 3
    return 0


def _trim(res, n=600):
    out = {}
    for k, v in res.items():
        s = v if isinstance(v, (int, float, bool, type(None))) else str(v)
        if isinstance(s, str) and len(s) > n:
            s = s[:n] + '...'
        out[k] = s
    return out


if __name__ == '__main__':
    sys.exit(main())
