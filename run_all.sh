#!/bin/bash
# run every claimed check (quick tier) sequentially; summary lines only.  usage: ./run_all.sh [seed]
cd "$(dirname "$0")"
export VERIF_SEED=${1:-0}
for p in $(/venv/bin/python -c "import json;print(' '.join(c['property_id'] for c in json.load(open('MANIFEST.json'))['checks']))"); do
  start=$(date +%s)
  out=$(./check $p --tier quick 2>&1); rc=$?
  echo "== $p exit=$rc $(( $(date +%s) - start ))s"
  echo "$out" | grep -E "^(VIOLATION|KNOWN-FINDING|INCONCLUSIVE|EVIDENCE INVALID|harness errors)" | cut -c1-260 | head -12
  echo "$out" | tail -1 | cut -c1-330
done
